#!/bin/sh
# Usage: tools/try_patch.sh <ID> <patch.diff> [extra ./check args]  -- runs ./check <ID> against a scratch copy of /repo/kopf with the patch
ID=$1; P=$(realpath "$2"); shift 2
HERE="$(cd "$(dirname "$0")/.." && pwd)"
tmp=$(mktemp -d /tmp/verif-try-XXXXXX)
cp -r /repo/kopf "$tmp/kopf"
(cd "$tmp" && patch -s -p1 < "$P") || { echo "patch does not apply"; rm -rf "$tmp"; exit 3; }
cd "$HERE" && KOPF_SRC="$tmp" VERIF_OUT="$tmp/out" ./check "$ID" "$@"; rc=$?
rm -rf "$tmp"; exit $rc
