"""A tiny closed-loop run of the real kopf of /repo in the simulation engine (setup sanity check)."""
import os
import sys
HERE = os.path.dirname(os.path.dirname(os.path.abspath(__file__)))
sys.path.insert(0, HERE)
sys.path.insert(0, os.environ.get('KOPF_SRC', '/repo'))
from kopfsim.sim import KEX, Sim  # noqa: E402

spec = {'handlers': [{'kind': 'create', 'id': 'c', 'script': [{'o': 'temp', 'delay': 5}]},
                     {'kind': 'delete', 'id': 'd'}, {'kind': 'event', 'id': 'e'}]}
sim = Sim(seed=1)
sim.start('A', spec)
sim.run_for(1)
sim.cluster.create(KEX, 'default', 'x', {'spec': {'f': 1}})
sim.run_for(20)
sim.cluster.delete(KEX, 'default', 'x')
sim.run_for(20)
sim.stop('A')
sim.run_for(30)
calls = [(c['hid'], c['outcome']) for c in sim.trace if c['kind'] != 'login']
assert ('c', 'temp') in calls and ('c', 'ok') in calls and ('d', 'ok') in calls, calls
assert (KEX, 'default', 'x') not in sim.cluster.objects
assert sim.ops['A'].exit == ('ok',), sim.ops['A'].exit
sim.close()
print('engine self-test ok:', len(calls), 'handler calls')
