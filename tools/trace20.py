import sys, json
sys.path.insert(0, '/repo'); sys.path.insert(0, '/verif')
from props import c20
from kopfsim.sim import KEX, CPEER
d = json.load(open(sys.argv[1])); sc = d.get('scenario', d)
run = c20.Run(sc)
if sc['peering']: run.cluster.create(CPEER, None, 'default', {})
run.run(); run.trigger(); run.advance(c20.bound_for(sc) + 15)
ev = []
for x in run.sim.trace:
    ev.append((x['seq'], f"CALL {x['kind']} {x['hid']} {x.get('name')} t0={x['t0']} t1={x.get('t1')} out={x['outcome']} flag_seen={x.get('flag_seen')} reason={x.get('stopped_reason')}"))
for r in run.cluster.requests:
    ev.append((r['seq'], f"   REQ t={r['t']:.3f} {r['method']} {r['plural']}/{r['name']} {sorted(r['classes'] & {'list','watch','patch'})} -> {r['outcome']}"))
for w in run.cluster.all_watches:
    ev.append((10**9, f"   WATCH {w.rkey[2]} opened={w.opened_at} closed={w.closed_at}"))
for n in run.sim.notes: ev.append((0, f"NOTE {n}"))
for s, l in sorted(ev): print(l)
op = run.sim.ops[run.current]; print(op.exit, op.exited_at, op.ready_at)
