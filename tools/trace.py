import sys, json
sys.path.insert(0, '/repo'); sys.path.insert(0, '/verif')
from props import closedloop as cl
import importlib
sc = json.load(open(sys.argv[1]))['scenario']
run = cl.Run(sc); run.run(); run.quiesce(importlib.import_module("props."+sys.argv[2]).bound_for(sc) if len(sys.argv)>2 else 100)
from kopfsim.sim import KEX
ev=[]
for r in run.sim.trace:
    if r['kind']!='login': ev.append((r['seq'], f"CALL {r['inc']} {r['hid']} {r.get('name')} t0={r['t0']} t1={r['t1']} retry={r.get('retry')} reason={r.get('reason')} out={r['outcome']} rv={r.get('rv')}"))
for h in run.sim.cluster.history:
    if h['rkey']==KEX: ev.append((h['seq'], f"  VER {h['t']} {h['type']} {h['name']} {h['uid']} rv={h['rv']} by {h['writer']} spec={h['body'].get('spec')} ann={h['body']['metadata'].get('annotations')} fin={h['body']['metadata'].get('finalizers')} status={h['body'].get('status')}"))
for q in run.sim.cluster.requests:
    if 'patch' in q['classes']: ev.append((q['seq'], f"    REQ {q['t']} {q['client']} {sorted(q['classes'])} {q['name']} -> {q['outcome']} {json.dumps(q['payload'])[:300]}"))
for w in run.sim.cluster.all_watches:
    if w.rkey==KEX:
        for d in w.delivered: ev.append((d[4], f"      DELIV w{w.id} t={d[0]} {d[1]} rv={d[2]} {d[3]}"))
for s,l in sorted(ev): print(s,l)
print(run.incarnations)
