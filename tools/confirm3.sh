#!/bin/sh
# Usage: tools/confirm3.sh <ID-n>   e.g. C01-3
# Confirms a seeded change in its own scratch worktree of /repo HEAD: the demo passes without the change and fails with it,
# and the pinned suite passes exactly as the baseline with the change applied. The worktree is removed afterwards.
N=$1; SRC=/verif/seeded/$N; WT=/tmp/seedchk-$N
git -C /repo worktree remove --force "$WT" 2>/dev/null
git -C /repo worktree add -q --detach "$WT" HEAD || exit 3
cp /repo/kopf/_cogs/helpers/versions.py "$WT/kopf/_cogs/helpers/versions.py" 2>/dev/null
(cd "$WT" && PYTHONPATH="$WT" timeout 300 /venv/bin/python "$SRC/demo.py" > /tmp/seedchk-$N.without.log 2>&1); rc0=$?
(cd "$WT" && git apply "$SRC/patch.diff") || { echo "$N patch does not apply"; git -C /repo worktree remove --force "$WT"; exit 3; }
(cd "$WT" && PYTHONPATH="$WT" timeout 300 /venv/bin/python "$SRC/demo.py" > /tmp/seedchk-$N.with.log 2>&1); rc1=$?
REPO_DIR="$WT" /verif/tools/baseline_compare.sh /tmp/seedchk-$N.junit.xml > /tmp/seedchk-$N.suite.log 2>&1; rcb=$?
git -C /repo worktree remove --force "$WT"
rm -f /tmp/seedchk-$N.junit.xml /tmp/seedchk-$N.junit.xml.log
echo "$N demo without change: exit $rc0; with change: exit $rc1; suite: rc=$rcb ($(head -1 /tmp/seedchk-$N.suite.log))"
[ $rc0 -eq 0 ] && [ $rc1 -ne 0 ] && [ $rcb -eq 0 ] && echo "CONFIRMED $N" || echo "NOT CONFIRMED $N"
