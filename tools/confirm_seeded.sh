#!/bin/sh
# Usage: tools/confirm_seeded.sh <ID> <dir with patch.diff, demo, meta.json>
# Confirms a seeded change in a scratch worktree: (1) the unedited suite still passes with it, (2) the demo fails with it
# and passes without it. Prints a summary; the worktree is removed afterwards.
ID=$1; SRC=$(realpath "$2")
WT=/tmp/seedchk-$ID
git -C /repo worktree remove --force "$WT" 2>/dev/null
git -C /repo worktree add -q "$WT" HEAD || exit 3
cp /repo/kopf/_cogs/helpers/versions.py "$WT/kopf/_cogs/helpers/versions.py" 2>/dev/null
DEMO=$(python3 -c "import json,sys; print(json.load(open('$SRC/meta.json'))['demo_cmd'])")
DEMO=$(echo "$DEMO" | sed "s#/tmp/seed/$ID-out#@@OUT@@#g; s#/tmp/seed/$ID#$WT#g; s#@@OUT@@#$SRC#g")
echo "demo: $DEMO"
(cd "$WT" && sh -c "$DEMO" > /tmp/seedchk-$ID.without.log 2>&1); rc0=$?
(cd "$WT" && git apply "$SRC/patch.diff") || { echo "patch does not apply"; exit 3; }
(cd "$WT" && sh -c "$DEMO" > /tmp/seedchk-$ID.with.log 2>&1); rc1=$?
echo "demo without change: exit $rc0; with change: exit $rc1"
REPO_DIR="$WT" /verif/tools/baseline_compare.sh /tmp/seedchk-$ID.junit.xml; rcb=$?
echo "suite with change: rc=$rcb"
git -C /repo worktree remove --force "$WT"
rm -f /tmp/seedchk-$ID.junit.xml /tmp/seedchk-$ID.junit.xml.log
[ $rc0 -eq 0 ] && [ $rc1 -ne 0 ] && [ $rcb -eq 0 ] && echo "CONFIRMED $ID" || echo "NOT CONFIRMED $ID"
