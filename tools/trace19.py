import sys, json
sys.path.insert(0, '/repo'); sys.path.insert(0, '/verif')
from props import c19
d = json.load(open(sys.argv[1])); sc = d.get('scenario', d)
run = c19.Run(sc); run.run()
c = run.c
ev = []
for r in c.requests:
    if r['plural'] in c19.BUSINESS.values() or (len(sys.argv) > 2 and sys.argv[2] == 'all'):
        ev.append((r['seq'], f"REQ t={r['t']:.4f} {r['method']} {r['plural']}@{r['ns']} {sorted(r['classes'] & {'list','watch','patch'})} since={r['query'].get('resourceVersion')} -> {r['outcome']} done={r['t_done']} list_rv={r.get('list_rv')} watch={r.get('watch')}"))
for w in c.all_watches:
    if w.rkey in c19.BUSINESS:
        for dl in w.delivered: ev.append((dl[4], f"   DELIV w{w.id} t={dl[0]:.4f} {dl[1]} rv={dl[2]} {dl[3]}"))
        ev.append((10**9, f"   WATCH w{w.id} {w.rkey[2]}@{w.namespace} opened={w.opened_at} closed={w.closed_at} aborted={w.aborted} end_consumed={w.end_consumed} errs={w.error_codes}"))
for x in run.sim.trace:
    if x.get('kind') == 'event': ev.append((x['seq'], f"      CALL {x['hid']} {x.get('ns')}/{x['name']} t={x['t0']:.4f} type={x.get('type')} rv={x['rv']}"))
for h in c.history:
    if h['rkey'] in c19.BUSINESS: ev.append((h['seq'], f" VER t={h['t']:.4f} {h['type']} {h['rkey'][2]} {h['ns']}/{h['name']} rv={h['rv']} by {h['writer']}"))
for s, l in sorted(ev): print(l)
print(run.sim.ops['A1'].exit, run.checkpoints[-1])
