#!/bin/sh
# Usage: tools/import_seed7.sh <ID>   copies a sub-agent's deliverables from /tmp/seed7 into seeded/<ID>-5, confirms, runs the check
P=$1; D=/verif/seeded/$P-5; mkdir -p $D
cp /tmp/seed7/$P.patch.diff $D/patch.diff; cp /tmp/seed7/$P.demo.py $D/demo.py; cp /tmp/seed7/$P.NOTES.md $D/NOTES.md
/verif/tools/confirm3.sh $P-5 | tail -2
(cd /verif && tools/try_patch.sh $P $D/patch.diff > /tmp/seed7/$P.check.log 2>&1; echo "check rc=$?"; grep -m3 "^VIOLATION\|^  C[0-9]*/" /tmp/seed7/$P.check.log | cut -c1-500)
