"""Generates MANIFEST.json from the table below (kept valid at all times; run after every change)."""
import json
import os

HERE = os.path.dirname(os.path.dirname(os.path.abspath(__file__)))
BASELINE = ("cd /repo && /venv/bin/python -m pytest -ra -q -p no:cacheprovider --timeout=900 "
            "--continue-on-collection-errors")

CL_NOTE = ('trusted base: the API-server model and the virtual-time scheduler of /verif/kopfsim (fidelity is an '
           'assumption, see DESIGN 2.2/8); only async handlers; schedules reachable by moving external events in time')

# Extensions made after the texts above were written (kept as short additions to each check's description).
ADDENDA = {
    'C01': ' The bytes of the watch stream are cut into network reads in generated ways (a line in pieces, its newline in a read of its own).',
    'C04': ' A handler field covering the status-based diff-base\'s own corner (status.kopf) is judged in the sub-domain where that is sound.',
    'C06': ' Deletion handlers may do their work through sub-handlers: the finalizer stays until all of them finished.',
    'C07': ' One family re-lists (compaction + broken streams) while a slow handler runs: a listed item is no echo of the patch.',
    'C08': ' Results include falsy values (0, False, \'\').',
    'C09': ' A pause may begin while an instance is in its stopping stages for another reason: the pausing operator has to go through them.',
    'C10': ' Backoffs include an explicit 0.',
    'C11': ' Backoffs include an explicit 0; a startup handler may have a sibling that needs more attempts.',
    'C16': ' Several storage operations may accumulate in one patch before it is applied, as a handling cycle does (closing-cycle shape included).',
    'C17': ' Index handlers may declare backoff=0.',
    'C18': ' The patched object is compared JSON-type-strictly (true is not 1); pure type changes of existing values are generated.',
    'C19': ' The stream bytes are cut into reads in generated ways; a kind named by a short name without a version has its CRD modified (short name lost/regained, a second version rolled out as preferred and back).',
    'C20': ' One family limits the workers (worker_limit) with more busy objects than slots at the stop.',
}

def pid_of(c):
    return next(k for k, v in CHECKS.items() if v is c)


CHECKS = {
    'C01': dict(
        technique='property-based testing with harness-owned schedules: Hypothesis-generated event arrival times / processing durations '
                  '(palette around idle_timeout incl. +-1e-10 s), worker limits, stream breaks and cancellation instants, driven through '
                  'the real queueing.watcher() and watch stack in virtual time; oracle = history invariants against the server\'s '
                  'per-connection delivery log',
        text='Component-level (recording processor) and closed-loop (on.event recorder) exploration: per-object processed sequence is a '
             'gap-free prefix of what the API delivered (all of it without cancellation; after a cancellation whatever fits into '
             'exit_timeout), per-object intervals never overlap, never more than worker_limit processors, no event waits while its '
             'worker or a slot is free - and a freed slot goes to a waiting object at once (never fewer than worker_limit workers of other '
             'objects alive while an event waits). The schedule "event arrives at the instant the idle worker retires" is a generated value. '
             'Bounded exploration of schedules reachable by moving arrivals in time.',
        design_ref='5/C01'),
    'C02': dict(
        technique='property-based testing: Hypothesis-generated closed-loop histories run against the real operator in a '
                  'virtual-time simulation; oracle = history invariants over handler log x server version history',
        text='Generated-history exploration: every case runs the unmodified kopf operator against an in-memory API server '
             'in virtual time over generated handler sets, outcome scripts, lifecycles, storage configurations, '
             'create/edit/delete histories, graceful restarts and kills at generated request ordinals, sub-handlers nested up to two levels, '
             'synchronous handlers (threads serialised with virtual time), API response latency; invariants I1-I5 '
             '(no invocation on a finished record, retry/started from the record, closure exactly when all selected '
             'handlers finished, complete purge, at most one success per cycle in the undisturbed sub-domain) are checked '
             'against an independent reader of the persisted records. Bounded exploration, not a proof.',
        design_ref='5/C02'),
    'C03': dict(
        technique='property-based testing: Hypothesis-generated closed-loop histories (edits, graceful restarts, kills before/after an '
                  'applied write, downtimes with edits, watch latency) against the real operator in virtual time; oracle = bounded-liveness '
                  'invariants at quiescence (Q1-Q6) computed with an independent essence function and record reader',
        text='Every case ends with a quiescence phase (operator running, scripted failures exhausted, time advanced by a bound derived '
             'from the generated delays) followed by a 90 s silent window; then: no writes/handling in the window, last-handled equals '
             'the final essence, no progress records, every handler of the outstanding change finished against the final state, '
             'old/new given to update handlers equal the stored/current essence, deleted objects are gone. Three listed known '
             'findings (A mid-cycle edit, L stale-view purge, M revert-to-handled-state) are identified by executable predicates. '
             'Bounded liveness, not a proof.',
        design_ref='5/C03'),
    'C04': dict(
        engine='pure',
        technique='property-based testing: Hypothesis-generated bodies/storage configurations/field paths through kopf\'s own '
                  'storages and diffs; oracles = metamorphic (framework writes and status/system edits leave the essence unchanged, '
                  'essential edits change it), round-trip (apply_diff(old, diff) == new, also reduced to a field) against an '
                  'independent RFC 7386 merge and diff applier; plus closed-loop two-operator ping-pong scenarios and closed-loop '
                  'histories judging the old/new/diff kwargs of every (field-narrowed) change handler invocation',
        text='Generated-input exploration of the pure change-detection functions (thousands of bodies per run, incl. other '
             'Kopf operators\' prefixes, ReplicaSet-of-Deployment marking, nulls/empties/unicode) and of the closed loop with '
             'one or two operators on the same object; in the closed loop every create/update/delete/resume handler invocation, '
             'whole-object or with field=, is given old = the stored last-handled state, new = the essence of its view (at the field) '
             'and a diff that applies old to new; bounded, not a proof.',
        note='trusted base: the independent merge-patch/diff appliers in kopfsim/rfc.py and props/c04.py; the other operator is '
             'assumed to use the stock storages; closed-loop part as for the kopfsim engine',
        design_ref='5/C04'),
    'C05': dict(
        technique='bounded-exhaustive enumeration of the finite cause space against a reference decision list, plus '
                  'property-based closed-loop histories (Hypothesis) whose every handler invocation is judged against the body it saw',
        text='The finite product (event type x deletion mark x own/foreign finalizers x stored state x first-sight x handler kind, '
             '576 combinations) is enumerated completely on every run and compared with the decision list of the statement; the '
             'closed-loop part explores generated histories (deletions racing open cycles, released objects at first sight, '
             'restarts) - bounded exploration.',
        design_ref='5/C05'),
    'C06': dict(
        technique='property-based testing: Hypothesis-generated closed-loop histories (deletions, label toggles, foreign finalizer edits, '
                  'API latency producing HTTP 422 conflicts, restarts) over generated delete handlers / daemons / timers; oracle = '
                  'invariants over the server-side finalizer list at every version vs the handler and daemon run log (F1-F4), incl. '
                  'bounded liveness at quiescence',
        text='F1 never early (every operator write that removes the finalizer is justified: nothing matching requires it / every matching '
             'mandatory deletion handler finished and every matching daemon or timer exited or was abandoned after backoff+timeout); '
             'F2 released at quiescence; F3 present iff required after the object\'s next event; F4 foreign finalizers and their order '
             'never touched. One listed known finding (a carried-over release applied after a 422 although requirements changed).',
        design_ref='5/C06'),
    'C07': dict(
        technique='property-based testing with harness-owned delivery timing: Hypothesis-generated watch-latency schedules around the '
                  'consistency timeout (+-1e-6 s), API latencies and bursts of foreign edits between a PATCH and its echo, in the closed '
                  'loop; oracle = history invariant relating each change-handler view to the versions returned by the incarnation\'s '
                  'earlier PATCHes, plus witnesses (on.event, index, timer) that must not be delayed',
        text='For every change-handler invocation the check looks for an earlier own PATCH of the same object whose returned version is '
             'newer than the view and younger than the consistency timeout; conversely raw-event and index handlers must run at the '
             'delivery instants (in the sub-domain where nothing else can delay them) and timers keep their interval. Bounded exploration.',
        design_ref='5/C07'),
    'C08': dict(
        technique='property-based testing: Hypothesis-generated closed-loop histories with handlers, timers and daemons (up to two patching background handlers per object) that accumulate merge fields, '
                  'results and non-idempotent marker transformations, under API latency (422 conflicts) and delete-and-recreate races; plus '
                  'a component-level generator driving patching.patch_obj() with a deletion or a foreign write injected before each of its '
                  '<=4 requests; oracle = reference model of the object + request-log rules + exactly-once markers',
        text='Reference-model comparison at quiescence (every patched field/result equals the last writer; every transformation marker '
             'occurs exactly once), request-log rules (status through /status iff the resource has the subresource; JSON patches '
             'start with a resourceVersion test and touch only transformation targets; no request after a 404; 404 is silent), and '
             'no write on another uid than the handled one. Two listed known findings (merge-patches land on a same-named successor; the '
             'leftover of a daemon\'s/timer\'s last patching is dropped), each identified by an executable predicate.',
        design_ref='5/C08'),
    'C09': dict(
        technique='property-based testing: Hypothesis-generated closed-loop histories over daemons/timers with generated stop behaviours and '
                  'cancellation settings (asynchronous ones, and synchronous ones running in real threads that are serialised with virtual time), '
                  'label toggles, graceful and forced deletions, pauses by a generated peer record and operator exit; '
                  'oracle = lifecycle invariants D1-D6 over enter/exit/stop-flag records vs delivery instants, plus a wall-clock stall '
                  'watchdog on every event-loop callback',
        text='At most one live instance per (object, handler); started at the delivery instant of the first matching event (+initial '
             'delay); the stop flag arrives exactly at the instant of the triggering event (deletion mark, disappearance, mismatch, pause, '
             'exit) with the right reason; cancellation not before the backoff; never restarted after exiting on its own; timers silent '
             'while paused/after exit; the operator neither crashes, nor livelocks, nor blocks its event loop. One listed known finding '
             '(instances survive a disappearance without deletion mark).',
        design_ref='5/C09'),
    'C10': dict(
        technique='property-based testing with exact virtual time: Hypothesis-generated timer declarations (interval x sharp x idle x '
                  'initial_delay constant/callable x backoff), run durations, outcome scripts and object-change instants in the closed loop; '
                  'oracle = schedule laws T1-T5 evaluated on exact start/end instants (tolerance 1e-6 s)',
        text='No overlap; next start = end + interval (non-sharp) / next grid point counted from the previous start (sharp) unless '
             'idling postpones it to event + idle; after a failure not before end + delay/backoff (and exactly then when nothing '
             'idles); first start = appearance + initial_delay (or later by idling); no start within idle after an essential change; '
             'the schedule keeps going. Bounded exploration.',
        design_ref='5/C10'),
    'C11': dict(
        technique='property-based testing: Hypothesis-generated handler declarations (errors mode x retries x timeout x backoff) and outcome '
                  'scripts (kopf\'s error classes and subclasses of them) for change handlers, sub-handlers, daemons, timers and startup activities, run in '
                  'the closed loop (with graceful restarts, with the handler\'s cause superseded while it waits for a retry, and idling timers whose object changes between the attempts); oracle = the observed attempt sequence replayed against an executable reading of docs/errors.rst',
        text='Per attempt sequence: retry numbers 0,1,2,..., next start >= previous end + requested delay/backoff, nothing after a final '
             'outcome (permanent error, arbitrary error in permanent/ignored mode, limits), at most retries=N invocations, no start at or '
             'after first start + timeout, a due retry does happen within the bound, a persisted record that reached the limit says '
             'failure; a failed startup aborts the operator with no API use. Bounded exploration.',
        design_ref='5/C11'),
    'C12': dict(
        technique='property-based testing in exact virtual time, three generated families: (A) 1-4 concurrent requests through kopf\'s API '
                  'client with the real credentials vault and re-authentication task against per-request fault scripts, session revocation, '
                  'backoff configurations and login behaviours; oracle = the documented retry/Retry-After/401 policy evaluated on the '
                  'server\'s request log and on what each caller got; (B) closed-loop histories with PATCH fault bursts on one object under '
                  'generated error_backoffs/error_delays while other objects change; (C) the same with unexpected errors inside the '
                  'processing of one object (its persisted last-handled state damaged and repaired at generated instants); oracle = '
                  'containment/recovery invariants',
        text='(A) attempts = len(backoffs)+1 for transient faults with gaps >= backoff_i and >= Retry-After (exactly so on an unchanged '
             'session), other 4xx escalate at once, the caller gets the last error; one login per invalidated session however many '
             'requests were hit, retries only on fresh credentials after the login finished, invalidated credentials never reach the '
             'server again (also when the login returns them again). (B) the operator stays up; the failing object is left alone for '
             'error_delays[i] after its i-th failed cycle in a row, not longer, reset by a successful cycle; isolated changes of other '
             'objects are handled within 0.5 s; after the faults stop the next change is handled and the object converges. (C) the same four clauses when every cycle on the '
             'damaged object raises inside the framework before any handler runs. Bounded '
             'exploration.',
        design_ref='5/C12'),
    'C13': dict(
        technique='property-based testing with several simulated operator processes in one virtual time: Hypothesis-generated priorities '
                  '(distinct/equal), lifetimes, API and stream latencies and timelines of starts, graceful exits, kills, environment-written '
                  'peering records (noisy, dead, immortal) and their removal, with settle points followed by a probe edit; oracle = the '
                  'documented pausing rule evaluated on the peering object\'s content at each settle point against the observable '
                  'activity of every process, plus keep-alive and once-only invariants over the histories',
        text='At every settle point an operator holds a stream of the served resource, runs its daemons and handles the probe iff no '
             'other live record of higher or equal priority exists (exactly the top one among distinct priorities, also after a kill or '
             'exit; nobody among equal ones); own records are renewed before they expire, removed on graceful exit, dead records '
             'disappear within a keep-alive period; no creation/resume handler succeeds twice and no update is handled twice within one '
             'process (one listed known finding: a pause that drops the event of an own patch). Bounded exploration.',
        design_ref='5/C13'),
    'C14': dict(
        technique='property-based testing: Hypothesis-generated multi-incarnation closed-loop histories (objects handled / half-handled / '
                  'created during downtime / being deleted before a start; stream breaks, 410 compaction => re-listing, edits and cloned '
                  'objects during and after the resume cycle); oracle = per-(incarnation, object, resume handler) counting invariants '
                  'against the incarnation\'s initial listing',
        text='At most one successful completion per (incarnation, object, resume handler); exactly one at quiescence for objects listed at '
             'start as handled-before, without unfinished progress, not being deleted (and surviving); none for objects first seen '
             'through the stream, nor for objects listed as being deleted unless deleted=True. Bounded exploration.',
        design_ref='5/C14'),
    'C15': dict(
        technique='bounded-exhaustive enumeration (itertools.product over a criteria alphabet, sampled in quick, complete in thorough) '
                  'of handler declarations x object states x causes through the public decorators, differential against an executable '
                  'reading of docs/filters.rst; plus property-based closed-loop histories (Hypothesis) with filtered handlers and sub-handlers; plus '
                  'property-based testing (Hypothesis) of the resource-selector criterion: generated clusters of resources with overlapping names x every '
                  'documented selector notation x re-scans of single API groups, differential against an executable reading of docs/resources.rst',
        text='L1 compares registry.get_handlers() with an independent matcher on ~4.7 million (declaration, state, cause) combinations over '
             'an alphabet that includes falsy literals (all of them in the thorough tier, a seed-dependent hashed sample of about a quarter in quick); L2 runs generated label/field/when-filtered '
             'operators in the closed loop and checks that every invocation satisfies its criteria on the view it got and that '
             'objects matched by no handler receive no operator write, and that whenever a parent handler ran exactly those of its sub-handlers ran whose '
             'own criteria hold; L3 compares the resources the operator serves (observation.revise_resources, also after re-scans of single groups) and the '
             'handlers selected per served resource with an independent reading of docs/resources.rst (names of every sort, group/version forms, kubectl '
             'notation, categories, EVERYTHING, callables, preferred versions, core-v1 priority, ambiguity, verbs). Two listed known findings (value= on '
             'create/resume/delete; core-v1 priority not applied per event) are '
             'identified by executable predicates and excluded so that the rest of the space is still compared.',
        design_ref='5/C15'),
    'C16': dict(
        engine='pure',
        technique='model-based property testing: Hypothesis-generated operation sequences (store/purge/touch/diff-base/foreign edits) '
                  'over generated handler ids, records, storage classes and bodies, executed through kopf\'s storages with an '
                  'independent RFC 7386 merge as the server; oracle = dictionary reference model (round trip, purge, isolation) '
                  'plus the Kubernetes qualified-name grammar and cross-process name stability',
        text='Thousands of generated sequences per run against every stock storage class/prefix/v1-v2 combination, incl. ids up to '
             '300 characters, ids sharing long prefixes, ReplicaSets of Deployments; two listed known findings (id collisions '
             'after the safe-character replacement; names starting/ending with a non-alphanumeric character) are identified by '
             'executable predicates and excluded so that the search continues behind them. Bounded exploration.',
        note='trusted base: kopfsim/rfc.py merge, the model in props/c16.py, the qualified-name regexes taken from the Kubernetes docs',
        design_ref='5/C16'),
    'C17': dict(
        technique='model-based property testing: Hypothesis-generated closed-loop histories over two resource kinds (creations before '
                  'and after the start, edits of per-object index-result plans with colliding and falsy keys/values, label toggles, deletions, '
                  're-creations, slow listings per (kind, namespace) for cluster-wide operators and operators serving two namespaces, slow index '
                  'functions, stream breaks, restarts); oracle = a dictionary reference model '
                  'written from docs/indexing.rst, folded over the observed indexing passes and compared with every index snapshot any '
                  'handler was given; plus a start-up gate invariant against the initial listings',
        text='Every snapshot of every index seen by any handler equals the documented content for the passes made so far (latest '
             'results of matching live objects; removal on deletion, filter mismatch, temporary/permanent error, with exclusion '
             'for the delay / forever; retention on None and on ignored errors); index functions are (not) invoked exactly when '
             'documented; no change handler, timer or daemon starts before every indexed kind was listed in every served namespace and each listed object '
             'went through an indexing pass. Bounded exploration.',
        design_ref='5/C17'),
    'C18': dict(
        engine='pure',
        technique='property-based testing: Hypothesis-generated admission reviews and handler sets through '
                  'serve_admission_request(); oracles = reference selection predicate, error-specificity order, and differential '
                  'patch semantics (own RFC 6902 applier on the returned patch vs own RFC 7386 merge of the requested changes + fns)',
        text='Generated-input exploration of the whole admission entry point (selection by id/type hint, operation/DELETE rule, '
             'subresource, filters - judged on the reviewed object even when the old object of an UPDATE differs; allowed/denied, message and code of the most specific error - raised as kopf\'s classes or as subclasses of them -, warnings order; patch '
             'equivalence up to empty mappings). Bounded exploration.',
        note='trusted base: kopfsim/rfc.py (RFC 7386/6902); hinted requests respect the hinted handler\'s operations (as the API '
             'server guarantees), see DESIGN 5/C18',
        design_ref='5/C18'),
    'C19': dict(
        technique='property-based testing: Hypothesis-generated closed-loop histories (object changes in several namespaces and of a '
                  'cluster-scoped kind, namespaces and a CRD appearing/disappearing, the CRD of a kind served by its short name losing/regaining that name, stream breaks and in-stream faults at generated '
                  'positions, bookmarks, 410 expiry, 429 on list/watch, server/client/inactivity timeouts, unknown events and ERRORs, resource versions '
                  'that start below/at a power of ten, a '
                  'higher-priority peer appearing/vanishing, and the garbage-collection schedule); oracle = protocol, delivery, pause and '
                  'coverage invariants over the API model\'s request and stream logs and the on.event invocations',
        text='Every watch resumes from the version of the last event/bookmark its predecessor consumed or from the preceding list; a '
             '410 is followed by a list; every listed object and every event delivered on a consumed stream is processed, and so is the '
             'final version of every served object; an unknown ERROR ends that stream instead of business as usual; no list/watch and no '
             'open stream of served resources while a higher-priority peer is known, and a list first afterwards; at every checkpoint '
             'exactly the served (resource, namespace) pairs have an open stream, never two at once. Bounded exploration.',
        design_ref='5/C19'),
    'C20': dict(
        technique='property-based testing: Hypothesis-generated closed-loop runs (startup/cleanup handler scripts with retry limits and '
                  'durations, slow change handlers, daemons with staged termination, timers, peering on/off, API response latency, objects before and during the '
                  'run, objects deleted shortly before the trigger so that daemons are already being stopped, events queued behind a slow handler) with one terminating trigger at a generated instant (stop flag, cancellation, '
                  'unknown ERROR in the CRD stream, unknown ERROR in the served resource\'s stream, none); oracle = ordering/outcome '
                  'invariants over the global order of handler calls, API requests, stream intervals and the run call\'s outcome',
        text='No request before the last startup handler succeeded; a failed startup => no request, no ready flag, the run call raises; '
             'ready flag only after startup; after the trigger the run call returns within the bound from the configured grace periods with '
             'the right outcome (failure re-raised / CancelledError / nothing); when the first cleanup handler starts every daemon has '
             'been asked to stop and none is still within its own cancellation backoff + timeout counted from the exit, no stream of the process is open, the peering record is withdrawn, and no handler starts afterwards; '
             'with the stop flag all cleanup handlers complete; nothing of the process happens after the run call returned. Two listed '
             'known findings (a failed watcher does not stop the operator; cleanup starts while invocations still run). Bounded exploration.',
        design_ref='5/C20'),
}

REASON_TODO = 'no check is registered for it yet in this revision (planned; see DESIGN.md section 9)'
ALL = [f'C{i:02d}' for i in range(1, 21)]


def main():
    checks = []
    for pid in ALL:
        if pid not in CHECKS:
            continue
        c = CHECKS[pid]
        checks.append({
            'property_id': pid,
            'quick_cmd': f'./check {pid} --tier quick',
            'thorough_cmd': f'./check {pid} --tier thorough',
            'evidence_file': f'evidence/{pid}.json',
            'replay_cmd_template': f'./check {pid} --replay {{path}}',
            'engine': c.get('engine', 'kopfsim'),
            'level_claimed': {'category': c.get('category', 'exploration'), 'text': c['text'] + ADDENDA.get(pid_of(c), ''), 'design_ref': c['design_ref']},
            'level_note': c.get('note', CL_NOTE),
            'technique': c['technique'],
        })
    manifest = {
        'version': 1,
        'setup_cmd': './setup.sh',
        'hooks': {
            'guard': 'NOLAR_KOPF_VERIF',
            'enable': 'no source hooks are needed: the API model is injected through the public kopf.AiohttpSession login '
                      'result and the clock shim is harness-side; checks import kopf from /repo (KOPF_SRC) as it is',
            'baseline_off_cmd': BASELINE,
            'source_commits': [],
            'add_only': True,
        },
        'engines': [
            {'name': 'kopfsim', 'path': 'kopfsim/', 'serves_properties': [p for p in ALL if p in CHECKS and CHECKS[p].get('engine', 'kopfsim') == 'kopfsim'],
             'kind_free_text': 'virtual-time multi-process asyncio scheduler + in-memory Kubernetes API model + generated operator programs; drives the real kopf code'},
            {'name': 'pure', 'path': 'props/', 'serves_properties': [p for p in ALL if p in CHECKS and CHECKS[p].get('engine') == 'pure'],
             'kind_free_text': 'Hypothesis / bounded-exhaustive / atheris drivers calling pure kopf functions against independent reference implementations'},
        ],
        'checks': checks,
        'not_applicable': [{'property_id': p, 'reason': REASON_TODO} for p in ALL if p not in CHECKS],
        'notes': 'Technique family: property-based testing and fuzzing. One entry point ./check <ID>; VERIF_SEED and VERIF_TIER are honoured; '
                 'exit 0 = held on everything explored, 1 = VIOLATION line with a replay file, 2 = harness error / inconclusive.',
    }
    with open(os.path.join(HERE, 'MANIFEST.json'), 'w') as f:
        json.dump(manifest, f, indent=1)
    print('MANIFEST.json:', len(checks), 'checks,', len(manifest['not_applicable']), 'not applicable')


if __name__ == '__main__':
    main()
