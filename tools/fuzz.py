#!/venv/bin/python
"""Coverage-guided tier: libFuzzer (atheris) drives the *same* Hypothesis strategy and oracle of a pure property.

Usage: tools/fuzz.py <ID> --runs N [--seed S] [--out DIR] [--corpus DIR]

The bytes libFuzzer mutates are Hypothesis' choice sequence (``test.hypothesis.fuzz_one_input``), so every input is a
well-formed scenario of the property's generator and the oracle is the property's ``run_case``; the coverage feedback comes
from kopf's instrumented modules. A violation is written as an ordinary scenario replay file (``./check <ID> --replay f``)
and reported as ``VIOLATION property=<ID> replay=<path>``; exit 1. Exit 0 when all runs held, 2 on harness problems.
libFuzzer's ``-seed`` pins a campaign only approximately: the saved scenario is the reproducible unit.
"""
import argparse
import importlib
import json
import os
import sys

HERE = os.path.dirname(os.path.dirname(os.path.abspath(__file__)))
sys.path.insert(0, os.path.join(HERE, '.deps'))
sys.path.insert(0, HERE)
sys.path.insert(0, os.environ.get('KOPF_SRC', '/repo'))


def main():
    ap = argparse.ArgumentParser()
    ap.add_argument('pid')
    ap.add_argument('--runs', type=int, default=20000)
    ap.add_argument('--seed', type=int, default=int(os.environ.get('VERIF_SEED', '1')))
    ap.add_argument('--out', default=os.environ.get('VERIF_OUT', HERE))
    ap.add_argument('--corpus', default=None)
    ap.add_argument('--stats', default=None)
    ap.add_argument('--result', default=None, help='write a shard result (the format of runner.pbt.explore) instead of reporting')
    args = ap.parse_args()
    try:
        import atheris
    except ImportError as e:
        print(f'fuzz: atheris is not installed ({e}); run ./setup.sh', file=sys.stderr)
        return 2
    import hypothesis
    from hypothesis import HealthCheck, given, settings
    with atheris.instrument_imports(include=['kopf'], enable_loader_override=False):
        import kopf  # noqa: F401
        mod = importlib.import_module(f'props.{args.pid.lower()}')
    from runner.pbt import canon, digest
    known_ids = set()
    try:
        kf = json.load(open(os.path.join(HERE, 'known_findings.json')))
        known_ids = {f['id'] for f in kf.get('findings', []) if f.get('property') == args.pid}
    except OSError:
        pass
    strategy = mod.fuzz_scenarios() if hasattr(mod, 'fuzz_scenarios') else mod.scenarios()
    stats = {'runs': 0, 'valid': 0, 'nontrivial': set(), 'known': 0, 'known_by_id': {}, 'violations': []}

    @settings(database=None, deadline=None, suppress_health_check=list(HealthCheck), report_multiple_bugs=False)
    @given(strategy)
    def test(scenario):
        stats['valid'] += 1
        res = mod.run_case(scenario)
        unknown = list(res.violations) + [{'sig': 'unlisted-finding:' + k['id'], 'msg': k['msg']} for k in res.known if k['id'] not in known_ids]
        stats['known'] += sum(1 for k in res.known if k['id'] in known_ids)
        for k in res.known:
            if k['id'] in known_ids:
                slot = stats['known_by_id'].setdefault(k['id'], {'count': 0, 'example': k['msg'][:500]})
                slot['count'] += 1
        if res.nontrivial:
            stats['nontrivial'].add(digest(scenario))
        if unknown and args.result:
            stats['violations'].append({'scenario': json.loads(canon(scenario)), 'violations': unknown, 'sig': unknown[0]['sig']})
            dump(1)
            os._exit(0)
        if unknown:
            os.makedirs(os.path.join(args.out, 'replays'), exist_ok=True)
            path = os.path.join(args.out, 'replays', f'{args.pid}-fuzz-{digest(scenario)}.json')
            with open(path, 'w') as f:
                json.dump({'property': args.pid, 'seed': args.seed, 'tier': 'fuzz', 'sig': unknown[0]['sig'], 'violations': unknown,
                           'scenario': json.loads(canon(scenario))}, f, indent=1)
            for u in unknown[:3]:
                print(f'  {u["sig"]}: {u["msg"][:400]}')
            print(f'VIOLATION property={args.pid} replay={os.path.relpath(path, args.out)}', flush=True)
            dump(1)
            os._exit(1)

    def dump(code):
        if args.result:
            with open(args.result, 'w') as f:
                json.dump(dict(evaluations=stats['valid'], nontrivial=sorted(stats['nontrivial']), classes={'fuzz:decoded-input': stats['valid']}, samples=[],
                               violations=stats['violations'], known=stats['known_by_id'], harness_errors=[], invalid=stats['runs'] - stats['valid'],
                               inconclusive=0, extra={'fuzz_inputs': stats['runs']}), f, default=repr)
        if args.stats:
            with open(args.stats, 'w') as f:
                json.dump({'runs': stats['runs'], 'valid': stats['valid'], 'nontrivial': sorted(stats['nontrivial']), 'known': stats['known'], 'exit': code}, f)

    def one(data):
        stats['runs'] += 1
        try:
            test.hypothesis.fuzz_one_input(data)
        except hypothesis.errors.HypothesisException:
            pass          # an unusable byte string (health checks, overruns): not an observation
        if stats['runs'] >= args.runs:
            dump(0)
            if not args.corpus:
                import shutil
                shutil.rmtree(corpus, ignore_errors=True)
            print(f'fuzz {args.pid}: {stats["runs"]} inputs, {stats["valid"]} decoded into scenarios, {len(stats["nontrivial"])} distinct non-trivial, '
                  f'{stats["known"]} hits of listed findings', flush=True)
            os._exit(0)

    argv = [sys.argv[0], f'-runs={args.runs + 10}', f'-seed={args.seed if args.seed else 1}', '-max_len=8192', '-len_control=0', '-verbosity=0',
            '-print_final_stats=0']
    # a fresh corpus of pseudo-random choice sequences long enough to decode into whole scenarios (an empty corpus starts from
    # one-byte inputs, which Hypothesis rejects as overruns); derived from the seed, so a campaign is a function of it
    import hashlib
    import tempfile
    corpus = args.corpus or tempfile.mkdtemp(prefix=f'verif-fuzz-{args.pid}-')
    os.makedirs(corpus, exist_ok=True)
    for i in range(48):
        with open(os.path.join(corpus, f'seed-{i:02d}'), 'wb') as f:
            f.write(hashlib.shake_256(f'{args.pid}:{args.seed}:{i}'.encode()).digest(512 * (1 + i % 8)))
    argv.append(corpus)
    atheris.Setup(argv, one)
    atheris.Fuzz()
    dump(0)
    return 0


if __name__ == '__main__':
    sys.exit(main())
