#!/bin/sh
# Runs the repository's pinned test command and compares the passing set with /root/.vp/BASELINE.json.
OUT=${1:-/tmp/verif-baseline.junit.xml}
cd "${REPO_DIR:-/repo}" && /venv/bin/python -m pytest -ra -q -p no:cacheprovider --timeout=900 --continue-on-collection-errors --junitxml="$OUT" > "$OUT.log" 2>&1
python3 - "$OUT" <<'PY'
import json, sys, xml.etree.ElementTree as ET
base = set(json.load(open('/root/.vp/BASELINE.json'))['stable_pass'])
passed = set()
for tc in ET.parse(sys.argv[1]).getroot().iter('testcase'):
    if not any(ch.tag in ('failure', 'error', 'skipped') for ch in tc):
        passed.add(f"{tc.get('classname')}::{tc.get('name')}")
missing = sorted(base - passed)
print(f'baseline {len(base)} passed-now {len(passed)} missing-from-baseline {len(missing)}')
for m in missing[:20]:
    print('  MISSING', m)
sys.exit(1 if missing else 0)
PY
