#!/bin/sh
# Usage: tools/confirm_demo.sh <ID> <dir>   -- demo passes without the change and fails with it (scratch worktree)
ID=$1; SRC=$(realpath "$2"); WT=/tmp/seedchk-$ID
git -C /repo worktree remove --force "$WT" 2>/dev/null
git -C /repo worktree add -q "$WT" HEAD || exit 3
cp /repo/kopf/_cogs/helpers/versions.py "$WT/kopf/_cogs/helpers/versions.py" 2>/dev/null
DEMO=$(python3 -c "import json; print(json.load(open('$SRC/meta.json'))['demo_cmd'])")
DEMO=$(echo "$DEMO" | sed "s#/tmp/seed/$ID-out#@@OUT@@#g; s#/tmp/seed/$ID#$WT#g; s#@@OUT@@#$SRC#g")
(cd "$WT" && sh -c "$DEMO" > /tmp/seedchk-$ID.without.log 2>&1); rc0=$?
(cd "$WT" && git apply "$SRC/patch.diff") || { echo "patch does not apply"; exit 3; }
(cd "$WT" && sh -c "$DEMO" > /tmp/seedchk-$ID.with.log 2>&1); rc1=$?
git -C /repo worktree remove --force "$WT"
echo "$ID demo without change: exit $rc0; with change: exit $rc1"
