"""Glue between Hypothesis and the per-property `run_case(scenario)` functions.

A *scenario* is plain JSON-able data (config + action list + schedule knobs). `run_case` is a pure
function of (the code under /repo, the scenario); it returns a CaseResult. All randomness lives in
the Hypothesis strategy that produced the scenario, so a scenario file replays without Hypothesis.
"""
import hashlib
import json
import os
import signal
import time
import traceback

import hypothesis
from hypothesis import HealthCheck, Phase, given, settings


class Violation(Exception):
    pass


class CaseTimeout(BaseException):
    """A single case exceeded the wall-clock watchdog (a hang in real time, which virtual time cannot see)."""


CASE_WATCHDOG_S = int(os.environ.get('VERIF_CASE_WATCHDOG', '120'))


def _alarm(signum, frame):
    raise CaseTimeout()


class CaseResult:
    __slots__ = ('violations', 'classes', 'nontrivial', 'summary', 'known')

    def __init__(self):
        self.violations = []   # [{'sig': str, 'msg': str}]
        self.known = []        # [{'id': finding id, 'msg': str}]
        self.classes = []      # labels for the histogram
        self.nontrivial = False
        self.summary = None    # a small JSON-able digest of what was observed (for samples)

    def fail(self, sig, msg):
        self.violations.append({'sig': sig, 'msg': msg})

    def label(self, *names):
        self.classes.extend(names)


def canon(scenario):
    return json.dumps(scenario, sort_keys=True, default=repr)


def digest(scenario):
    return hashlib.blake2b(canon(scenario).encode(), digest_size=8).hexdigest()


def ddmin_actions(scenario, still_fails, key='actions', budget=80):
    """Greedy bounded delta-debugging over scenario[key] (a list). Returns a smaller failing scenario."""
    if not isinstance(scenario, dict) or not isinstance(scenario.get(key), list):
        return scenario
    cur = scenario
    n = 2
    runs = 0
    while len(cur[key]) >= 1 and runs < budget:
        items = cur[key]
        chunk = max(1, len(items) // n)
        reduced = False
        for i in range(0, len(items), chunk):
            cand = dict(cur)
            cand[key] = items[:i] + items[i + chunk:]
            runs += 1
            if still_fails(cand):
                cur = cand
                n = max(n - 1, 2)
                reduced = True
                break
            if runs >= budget:
                break
        if not reduced:
            if chunk == 1:
                break
            n = min(len(items), n * 2)
    return cur


def explore(strategy, run_case, *, seed, max_examples, tier, known_ids=(), shrink_keys=('actions',),
            max_samples=3, time_budget=None):
    """Drive run_case over generated scenarios. Returns a JSON-able shard result."""
    out = dict(evaluations=0, nontrivial=set(), classes={}, samples=[], violations=[], known={},
               harness_errors=[], invalid=0, inconclusive=0)
    state = dict(last_failure=None, t0=time.time(), stopped=False)
    known_ids = set(known_ids)

    def evaluate(scenario, collect=True):
        signal.signal(signal.SIGALRM, _alarm)
        signal.alarm(CASE_WATCHDOG_S)
        if os.environ.get('VERIF_DEBUG_CURRENT'):
            with open(os.environ['VERIF_DEBUG_CURRENT'], 'w') as f:
                f.write(canon(scenario))
        try:
            res = run_case(scenario)
        finally:
            signal.alarm(0)
        unknown = []
        for v in res.violations:
            unknown.append(v)
        if collect:
            out['evaluations'] += 1
            for c in res.classes:
                out['classes'][c] = out['classes'].get(c, 0) + 1
            if res.nontrivial:
                out['nontrivial'].add(digest(scenario))
                if len(out['samples']) < max_samples:
                    out['samples'].append({'scenario': scenario, 'observed': res.summary})
            for k in res.known:
                if k['id'] in known_ids:
                    slot = out['known'].setdefault(k['id'], {'count': 0, 'example': k['msg']})
                    slot['count'] += 1
                else:
                    unknown.append({'sig': 'unlisted-finding:' + k['id'], 'msg': k['msg']})
        else:
            for k in res.known:
                if k['id'] not in known_ids:
                    unknown.append({'sig': 'unlisted-finding:' + k['id'], 'msg': k['msg']})
        return res, unknown

    phases = [Phase.explicit, Phase.generate, Phase.target]
    if tier == 'thorough':
        phases.append(Phase.shrink)

    @hypothesis.seed(seed)
    @settings(max_examples=max_examples, database=None, deadline=None, derandomize=False,
              report_multiple_bugs=False, suppress_health_check=list(HealthCheck), phases=phases,
              print_blob=False, verbosity=hypothesis.Verbosity.quiet)
    @given(strategy)
    def test(scenario):
        if time_budget is not None and time.time() - state['t0'] > time_budget and state['last_failure'] is None:
            state['stopped'] = True
            return
        res, unknown = evaluate(scenario)
        if unknown:
            state['last_failure'] = (scenario, unknown)
            raise Violation(unknown[0]['sig'])

    try:
        test()
    except Violation:
        pass
    except CaseTimeout:
        out['harness_errors'].append(f'a case did not finish within {CASE_WATCHDOG_S}s of wall-clock time (hang); inconclusive')
    except hypothesis.errors.Flaky as e:
        if state['last_failure'] is None:
            out['harness_errors'].append('Flaky: ' + str(e)[:500])
    except Exception:
        if state['last_failure'] is None:
            out['harness_errors'].append(traceback.format_exc()[-3000:])

    if state['last_failure'] is not None:
        scenario, unknown = state['last_failure']
        sig = unknown[0]['sig']

        def still_fails(cand):
            try:
                _, unk = evaluate(cand, collect=False)
            except Exception:
                return False
            return any(u['sig'] == sig for u in unk)
        # confirm by replaying (up to 3 times) before reporting
        confirmed = False
        for _ in range(3):
            if still_fails(scenario):
                confirmed = True
                break
        if confirmed:
            for key in shrink_keys:
                scenario = ddmin_actions(scenario, still_fails, key=key, budget=60 if tier == 'quick' else 200)
            _, unknown2 = evaluate(scenario, collect=False)
            out['violations'].append({'scenario': scenario, 'violations': unknown2 or unknown, 'sig': sig})
        else:
            out['inconclusive'] += 1
            out['harness_errors'].append(f'unreproducible failure {sig}: {unknown[0]["msg"][:500]}')
    out['nontrivial'] = sorted(out['nontrivial'])
    out['stopped_on_time_budget'] = state['stopped']
    return out
