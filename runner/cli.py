"""./check <ID> — runs one property's generated search, sharded over processes, writes evidence."""
import argparse
import importlib
import json
import os
import shutil
import subprocess
import sys
import tempfile
import time

HERE = os.path.dirname(os.path.dirname(os.path.abspath(__file__)))
sys.path.insert(0, HERE)
KOPF_SRC = os.environ.get('KOPF_SRC', '/repo')
OUT = os.environ.get('VERIF_OUT', HERE)   # where evidence/ and replays/ go (selftest redirects them)


def load_known():
    path = os.path.join(HERE, 'known_findings.json')
    if not os.path.exists(path):
        return []
    with open(path) as f:
        return json.load(f).get('findings', [])


def main():
    ap = argparse.ArgumentParser()
    ap.add_argument('prop')
    ap.add_argument('--tier', default=os.environ.get('VERIF_TIER') or 'quick', choices=['quick', 'thorough'])
    ap.add_argument('--replay')
    ap.add_argument('--shards', type=int, default=int(os.environ.get('VERIF_SHARDS', '16')))
    ap.add_argument('--examples', type=int, default=None)
    ap.add_argument('--shard', type=int, default=None, help='(internal) run one shard')
    ap.add_argument('--out', default=None, help='(internal) shard result file')
    args = ap.parse_args()
    seed = int(os.environ.get('VERIF_SEED', '1') or '1')
    pid = args.prop.upper()

    sys.path.insert(0, KOPF_SRC)
    if args.shard is not None:
        return run_shard(pid, args, seed)
    if args.replay:
        return run_replay(pid, args)
    return run_all(pid, args, seed)


def prop_module(pid):
    return importlib.import_module(f'props.{pid.lower()}')


def known_ids_for(pid):
    return [f['id'] for f in load_known() if f.get('property') == pid and f.get('status', 'known') == 'known']


def run_shard(pid, args, seed):
    mod = prop_module(pid)
    ctx = dict(seed=seed * 1000 + args.shard, base_seed=seed, tier=args.tier, shard=args.shard, nshards=args.shards,
               examples=args.examples, known_ids=known_ids_for(pid))
    t0 = time.time()
    res = mod.run_shard(ctx)
    res['wall_s'] = time.time() - t0
    with open(args.out, 'w') as f:
        json.dump(res, f, default=repr)
    return 0


def run_replay(pid, args):
    mod = prop_module(pid)
    with open(args.replay) as f:
        doc = json.load(f)
    scenario = doc.get('scenario', doc)
    res = mod.run_case(scenario)
    known = set(known_ids_for(pid))
    bad = list(res.violations) + [{'sig': 'unlisted-finding:' + k['id'], 'msg': k['msg']} for k in res.known if k['id'] not in known]
    for k in res.known:
        if k['id'] in known:
            print(f'KNOWN-FINDING: property={pid} {k["id"]}: {k["msg"][:300]}')
    if bad:
        for v in bad:
            print(f'  {v["sig"]}: {v["msg"][:1000]}')
        print(f'VIOLATION property={pid} replay={args.replay}')
        return 1
    print(f'replay of {args.replay}: property {pid} held')
    return 0


def run_all(pid, args, seed):
    t0 = time.time()
    mod = prop_module(pid)
    nshards = max(1, min(args.shards, getattr(mod, 'MAX_SHARDS', 64)))
    tmp = tempfile.mkdtemp(prefix=f'verif-{pid}-')
    procs = []
    env = dict(os.environ, PYTHONHASHSEED='0', VERIF_SEED=str(seed))
    limit = getattr(mod, 'WATCHDOG_S', {'quick': 900, 'thorough': 6 * 3600})[args.tier]
    try:
        for i in range(nshards):
            out = os.path.join(tmp, f'shard{i}.json')
            cmd = [sys.executable, '-B', os.path.abspath(__file__), pid, '--tier', args.tier,
                   '--shards', str(nshards), '--shard', str(i), '--out', out]
            if args.examples is not None:
                cmd += ['--examples', str(args.examples)]
            log = open(os.path.join(tmp, f'shard{i}.log'), 'w')
            procs.append((i, out, subprocess.Popen(cmd, env=env, stdout=log, stderr=subprocess.STDOUT, cwd=HERE), log))
        results, errors = [], []
        for i, out, p, log in procs:
            try:
                rc = p.wait(timeout=max(1, limit - (time.time() - t0)))
            except subprocess.TimeoutExpired:
                p.kill()
                errors.append(f'shard {i}: watchdog after {limit}s')
                continue
            finally:
                log.close()
            if rc != 0 or not os.path.exists(out):
                with open(os.path.join(tmp, f'shard{i}.log')) as f:
                    errors.append(f'shard {i}: exit {rc}: ' + f.read()[-3000:])
                continue
            with open(out) as f:
                results.append(json.load(f))
        # the coverage-guided stage (thorough tier of the pure properties): libFuzzer drives the same strategy and oracle
        fuzz_runs = getattr(mod, 'FUZZ_RUNS', {}).get(args.tier)
        if fuzz_runs and os.environ.get('VERIF_FUZZ_RUNS'):
            fuzz_runs = int(os.environ['VERIF_FUZZ_RUNS'])
        if fuzz_runs and not any(r.get('violations') for r in results):
            fprocs = []
            for i in range(nshards):
                out = os.path.join(tmp, f'fuzz{i}.json')
                cmd = [sys.executable, '-B', os.path.join(HERE, 'tools', 'fuzz.py'), pid, '--runs', str(fuzz_runs), '--seed', str(seed * 1000 + i + 1),
                       '--result', out, '--corpus', os.path.join(tmp, f'corpus{i}')]
                log = open(os.path.join(tmp, f'fuzz{i}.log'), 'w')
                fprocs.append((i, out, subprocess.Popen(cmd, env=env, stdout=log, stderr=subprocess.STDOUT, cwd=HERE), log))
            procs.extend(fprocs)
            for i, out, p, log in fprocs:
                try:
                    rc = p.wait(timeout=max(1, limit - (time.time() - t0)))
                except subprocess.TimeoutExpired:
                    p.kill()
                    errors.append(f'fuzz shard {i}: watchdog after {limit}s')
                    continue
                finally:
                    log.close()
                if rc != 0 or not os.path.exists(out):
                    with open(os.path.join(tmp, f'fuzz{i}.log')) as f:
                        errors.append(f'fuzz shard {i}: exit {rc}: ' + f.read()[-2000:])
                    continue
                with open(out) as f:
                    results.append(json.load(f))
        return report(pid, mod, args, seed, results, errors, time.time() - t0)
    finally:
        for _, _, p, _ in procs:
            if p.poll() is None:
                p.kill()
        shutil.rmtree(tmp, ignore_errors=True)


def report(pid, mod, args, seed, results, errors, wall):
    evaluations = sum(r['evaluations'] for r in results)
    nontrivial = set()
    classes, known, samples, violations = {}, {}, [], []
    for r in results:
        nontrivial.update(r['nontrivial'])
        for k, v in r['classes'].items():
            classes[k] = classes.get(k, 0) + v
        for k, v in r.get('known', {}).items():
            slot = known.setdefault(k, {'count': 0, 'example': v['example']})
            slot['count'] += v['count']
        if len(samples) < 4:
            samples.extend(r['samples'][:1])
        violations.extend(r['violations'])
        errors.extend(r.get('harness_errors', []))
    extra = {}
    for r in results:
        for k, v in (r.get('extra') or {}).items():
            if isinstance(v, bool):
                extra[k] = extra.get(k, True) and v
            elif isinstance(v, (int, float)) and k.endswith('_size'):
                extra[k] = max(extra.get(k, 0), v)       # a property of the space, the same in every shard
            elif isinstance(v, (int, float)):
                extra[k] = extra.get(k, 0) + v
            else:
                extra.setdefault(k, v)
    replay_paths = []
    os.makedirs(os.path.join(OUT, 'replays'), exist_ok=True)
    seen_sigs = set()
    for v in violations:
        if v['sig'] in seen_sigs:
            continue
        seen_sigs.add(v['sig'])
        from runner.pbt import digest
        path = os.path.join('replays', f'{pid}-{digest(v["scenario"])}.json')
        with open(os.path.join(OUT, path), 'w') as f:
            json.dump({'property': pid, 'seed': seed, 'tier': args.tier, 'sig': v['sig'],
                       'violations': v['violations'], 'scenario': v['scenario']}, f, indent=1, default=repr)
        replay_paths.append((path, v))
    coverage = dict(evaluations=evaluations, distinct_nontrivial=len(nontrivial), rule=mod.RULE,
                    samples=samples[:4], classes=dict(sorted(classes.items())),
                    known_findings_hit={k: v['count'] for k, v in known.items()},
                    shards=len(results), harness_errors=len(errors))
    coverage.update(extra)
    evidence = dict(property_id=pid, tier=args.tier, seed=seed, level=mod.LEVEL, coverage=coverage,
                    assumptions=list(mod.ASSUMPTIONS), wall_s=round(wall, 2), violations=len(replay_paths))
    os.makedirs(os.path.join(OUT, 'evidence'), exist_ok=True)
    with open(os.path.join(OUT, 'evidence', f'{pid}.json'), 'w') as f:
        json.dump(evidence, f, indent=1, default=repr)
    print(f'{pid} [{args.tier}] seed={seed}: {evaluations} cases, {len(nontrivial)} distinct non-trivial, '
          f'{len(results)} shards, {wall:.1f}s')
    for k, v in sorted(classes.items()):
        print(f'  class {k}: {v}')
    for f in load_known():
        if f.get('property') == pid and f.get('status', 'known') == 'known':
            hit = known.get(f['id'], {'count': 0, 'example': ''})
            print(f'KNOWN-FINDING: property={pid} {f["id"]}: {f.get("what", "")} [{hit["count"]} generated cases hit it in this run]')
    for path, v in replay_paths:
        for d in v['violations'][:3]:
            print(f'  {d["sig"]}: {d["msg"][:1500]}')
        print(f'VIOLATION property={pid} replay={path}')
    if replay_paths:
        return 1
    if errors:
        for e in errors[:5]:
            print('HARNESS-ERROR:', e[:3000])
        return 2
    if evaluations == 0:
        print('HARNESS-ERROR: nothing was evaluated')
        return 2
    return 0


if __name__ == '__main__':
    sys.exit(main())
