#!/bin/sh
# Offline setup: make sure hypothesis is importable in /venv (it is pre-installed there; otherwise install it
# from the offline wheelhouse), then run a 2-second engine self-test against /repo's working tree.
set -e
HERE="$(cd "$(dirname "$0")" && pwd)"
PY="${VERIF_PYTHON:-/venv/bin/python}"
if ! "$PY" -c 'import hypothesis' 2>/dev/null; then
  /venv/bin/pip install --no-index --find-links /opt/veriftools/wheels hypothesis
fi
# the coverage-guided stage of the thorough tier (C04, C16, C18) needs atheris: installed beside the checks, never into /venv
if ! PYTHONPATH="$HERE/.deps" "$PY" -c 'import atheris' 2>/dev/null; then
  /venv/bin/pip install -q --no-index --find-links /opt/veriftools/wheels --target "$HERE/.deps" atheris || echo "setup: atheris not installable; the fuzz stage will report a harness error"
fi
cd "$HERE"
PYTHONHASHSEED=0 "$PY" -B tools/engine_selftest.py
