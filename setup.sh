#!/bin/sh
# Offline setup: make sure hypothesis is importable in /venv (it is pre-installed there; otherwise install it
# from the offline wheelhouse), then run a 2-second engine self-test against /repo's working tree.
set -e
HERE="$(cd "$(dirname "$0")" && pwd)"
PY="${VERIF_PYTHON:-/venv/bin/python}"
if ! "$PY" -c 'import hypothesis' 2>/dev/null; then
  /venv/bin/pip install --no-index --find-links /opt/veriftools/wheels hypothesis
fi
cd "$HERE"
PYTHONHASHSEED=0 "$PY" -B tools/engine_selftest.py
