"""An in-memory model of a Kubernetes API server + a duck-typed aiohttp session/response.

Written from the Kubernetes API conventions, not from kopf's code. The patch appliers are
``kopfsim.rfc`` (own RFC 7386 / RFC 6902 implementations).
"""
import asyncio
import collections
import copy
import json
import re
import urllib.parse

import aiohttp

from kopfsim import rfc, vclock

SYSTEM_META = ('uid', 'resourceVersion', 'creationTimestamp', 'name', 'namespace',
               'deletionTimestamp', 'generation')


class ResDef:
    def __init__(self, group, version, plural, kind, namespaced=True, status_sub=False,
                 verbs=('list', 'watch', 'patch', 'create', 'delete', 'get', 'update'),
                 shortnames=(), categories=(), singular=None):
        self.group, self.version, self.plural, self.kind = group, version, plural, kind
        self.namespaced, self.status_sub = namespaced, status_sub
        self.verbs, self.shortnames, self.categories = tuple(verbs), tuple(shortnames), tuple(categories)
        self.singular = singular if singular is not None else kind.lower()

    @property
    def key(self):
        return (self.group, self.version, self.plural)

    @property
    def api_version(self):
        return f'{self.group}/{self.version}' if self.group else self.version


NAMESPACES = ('', 'v1', 'namespaces')
EVENTS = ('', 'v1', 'events')
CRDS = ('apiextensions.k8s.io', 'v1', 'customresourcedefinitions')


class Watch:
    """One open watch connection: FIFO delivery with a latency function; bound to the client's loop."""
    _ids = 0

    def __init__(self, cluster, session, rkey, namespace, since):
        Watch._ids += 1
        self.id = Watch._ids
        self.cluster, self.session, self.rkey, self.namespace, self.since = cluster, session, rkey, namespace, since
        self.loop = asyncio.get_running_loop()
        self.queue = asyncio.Queue()
        self.closed = False        # no more pushes accepted
        self.aborted = False       # the client closed the connection
        self.not_before = 0.0
        self.opened_at = self.loop.time()
        self.closed_at = None
        self.closed_seq = None     # the global tick at which the stream ended (orders it among co-temporal happenings)
        self.delivered = []        # (t, type, rv, uid)
        self.fifo = collections.deque()   # in-flight items; timers only say "deliver the next one" (keeps the order
                                          # even when two deliveries are due at the very same instant)
        self.pushed = 0
        self.fault_at = {}         # event ordinal -> fault spec (stream faults at position k)
        self.error_codes = []      # codes of the ERROR events pushed into this stream
        self.end_consumed = False  # the client has read the stream up to its server-side end

    def matches(self, body):
        return self.namespace is None or self.namespace == body.get('metadata', {}).get('namespace')

    def _deliver_next(self):
        item, rec = self.fifo.popleft()
        self._deliver(item, rec)

    def _enqueue(self, when, item, rec):
        self.fifo.append((item, rec))
        self.loop.call_at(when, self._deliver_next)

    def _deliver(self, item, rec):
        if self.session.fenced or self.aborted:
            return
        if rec is not None:
            self.delivered.append((self.loop.time(),) + rec + (self.cluster.world.tick(),))
        self.queue.put_nowait(item)

    def push(self, ev):
        if self.closed:
            return
        ordinal = self.pushed
        self.pushed += 1
        fault = self.fault_at.pop(ordinal, None)
        if fault is not None:
            self.cluster._stream_fault(self, fault)
            if self.closed:
                return
        delay = self.cluster.watch_latency(self, ev)
        when = max(self.loop.time() + delay, self.not_before)
        self.not_before = when
        data = (json.dumps(ev) + '\n').encode()
        obj = ev.get('object', {})
        if ev.get('type') == 'ERROR' and isinstance(obj, dict):
            self.error_codes.append(obj.get('code'))
        meta = obj.get('metadata', {}) if isinstance(obj, dict) else {}
        rec = (ev.get('type'), meta.get('resourceVersion'), meta.get('uid'))
        self._enqueue(when, data, rec)

    def end(self, exc=None):
        """Server-side or client-side end of the stream (after everything already in flight)."""
        if self.closed:
            return
        self.closed = True
        self.closed_at = self.loop.time()
        self.closed_seq = self.cluster.world.tick()
        self.cluster.drop_watch(self)
        self._enqueue(max(self.loop.time(), self.not_before), exc, None)

    def abort(self, exc):
        """Client closed the response: the reader fails at once, in-flight events are lost."""
        if self.aborted:
            return
        self.aborted = True
        self.closed = True
        if self.closed_at is None:
            self.closed_at = self.loop.time()
            self.closed_seq = self.cluster.world.tick()
        self.cluster.drop_watch(self)
        self.queue.put_nowait(exc)


class FakeContent:
    def __init__(self, resp):
        self.resp = resp

    async def iter_chunked(self, n):
        w = self.resp.watch
        if w is None:
            return
        while True:
            item = await w.queue.get()
            if (item is None or isinstance(item, BaseException)) and not w.aborted:
                w.end_consumed = True
            if item is None:
                return
            if isinstance(item, BaseException):
                raise item
            # how the bytes of the stream are cut into network reads is not the API's business: a line may arrive in pieces,
            # its newline apart from it (cluster.chunking is a scenario dimension; the pieces follow each other at once)
            mode = getattr(w.cluster, 'chunking', None)
            if mode == 'newline-apart' and isinstance(item, bytes) and len(item) > 1 and item.endswith(b'\n'):
                yield item[:-1]
                yield item[-1:]
            elif mode == 'halves' and isinstance(item, bytes) and len(item) > 2:
                yield item[:len(item) // 2]
                yield item[len(item) // 2:]
            elif mode == 'thirds' and isinstance(item, bytes) and len(item) > 3:
                k = len(item) // 3
                yield item[:k]
                yield item[k:-1]
                yield item[-1:]
            else:
                yield item


class FakeResponse:
    def __init__(self, status=200, payload=None, headers=None, watch=None):
        self.status = status
        self._payload = payload
        self.headers = dict(headers or {})
        self.watch = watch
        self.closed = False
        self.content = FakeContent(self)

    async def json(self):
        if isinstance(self._payload, (dict, list)):
            return copy.deepcopy(self._payload)
        raise aiohttp.ContentTypeError(None, (), message='not json')

    async def text(self):
        return self._payload if isinstance(self._payload, str) else json.dumps(self._payload)

    def raise_for_status(self):
        if self.status >= 400:
            self.close()
            raise aiohttp.ClientResponseError(None, (), status=self.status, message='err', headers=self.headers)

    def close(self):
        if not self.closed:
            self.closed = True
            if self.watch is not None and not self.watch.aborted:
                self.watch.abort(aiohttp.ClientConnectionError('Connection closed'))

    def release(self):
        self.close()

    async def __aenter__(self):
        return self

    async def __aexit__(self, *a):
        self.close()


class FakeSession:
    """Duck-typed aiohttp.ClientSession talking to a FakeCluster."""
    _ids = 0

    def __init__(self, cluster, client_id='op', token=None):
        FakeSession._ids += 1
        self.sid = FakeSession._ids
        self.token = token if token is not None else f'tok-{self.sid}'     # the credentials this session presents
        self.cluster = cluster
        self.client_id = client_id
        self.headers = {}
        self.closed = False
        self.fenced = False      # the owning process was killed: nothing may come from/to it anymore
        self.responses = []
        cluster.sessions.append(self)

    def __eq__(self, other):
        # two sessions presenting the same credentials are "the same credentials" for whoever compares them
        return isinstance(other, FakeSession) and other.token == self.token

    def __hash__(self):
        return hash(self.token)

    async def request(self, method, url, json=None, headers=None, timeout=None, **kw):
        if self.fenced:
            raise AssertionError('a request from a killed process')
        if self.closed:
            raise RuntimeError('Session is closed')
        total = getattr(timeout, 'total', None)
        coro = self.cluster.handle(self, method.upper(), url, json, headers or {}, total)
        rsp = await coro
        if self.closed:
            # the session was closed while the request was in flight: whatever the server did, the client sees a broken connection
            rsp.close()
            if getattr(rsp, 'req', None) is not None:
                rsp.req['outcome'] = f'{rsp.req["outcome"]}+session-closed'
            raise aiohttp.ClientConnectionError('Connector is closed.')
        self.responses = [r for r in self.responses if not r.closed] + [rsp]
        return rsp

    async def close(self):
        self.closed = True
        for rsp in self.responses:
            rsp.close()
        self.responses = []


class Fault:
    """One rule of a fault plan. JSON-able spec:

    ``{"on": <class>, "name": <obj name or None>, "client": <id or None>, "nth": k, "count": n, "do": <effect>, ...}``
    classes: patch, merge, jsonpatch, status, list, watch, get, post, delete, any.
    effects: status (code, retry_after_header, retry_after_details), exc (exc), latency (dt),
    apply_then_fail (exc), kill_before, kill_after, hook (callable name registered in cluster.hooks).
    """
    def __init__(self, spec):
        self.spec = dict(spec)
        self.seen = 0
        self.fired = 0

    def matches(self, req):
        s = self.spec
        cls = s.get('on', 'any')
        if cls != 'any' and cls not in req['classes']:
            return False
        if s.get('name') is not None and s['name'] != req['name']:
            return False
        if s.get('plural') is not None and s['plural'] != req['plural']:
            return False
        if s.get('ns') is not None and s['ns'] != req.get('ns'):
            return False
        if s.get('client') is not None and s['client'] != req['client']:
            return False
        return True

    def take(self, req):
        if not self.matches(req):
            return False
        k = self.seen
        self.seen += 1
        nth = self.spec.get('nth', 0)
        count = self.spec.get('count', 1)
        if nth <= k < nth + count:
            self.fired += 1
            return True
        return False


EXCS = {
    'conn': lambda: aiohttp.ClientConnectionError('simulated connection error'),
    'disconnected': lambda: aiohttp.ServerDisconnectedError('simulated disconnect'),
    'payload': lambda: aiohttp.ClientPayloadError('simulated payload error'),
    'timeout': lambda: asyncio.TimeoutError('simulated timeout'),
    'oserror': lambda: aiohttp.ClientOSError(104, 'Connection reset by peer'),
}


class FakeCluster:
    def __init__(self, world):
        self.world = world
        self.rv = 100
        self.uid_seq = 0
        self.req_seq = 0
        self.resdefs = {}
        self.chunking = None      # None | 'newline-apart' | 'halves' | 'thirds': how watch lines are cut into reads
        self.preferred = {}       # API group -> its preferred version (default: the first one in sorted order)
        self.objects = {}        # (rkey, ns, name) -> body
        self.log = {}            # rkey -> [(rv:int, type, body)]
        self.horizon = {}        # rkey -> rv: history at or below is compacted
        self.revoked = set()     # tokens of sessions whose credentials the server no longer accepts (401)
        self.watches = []
        self.all_watches = []
        self.sessions = []
        self.requests = []       # dicts
        self.history = []        # every object version: dict(t, rkey, ns, name, uid, rv, type, body, writer, req)
        self.faults = []         # [Fault]
        self.hooks = {}          # name -> callable(cluster, req) (harness-registered)
        self.kill_cb = None      # callable(client_id) -> kills the process of that client
        self.api_latency = lambda req: 0.0       # before the server processes the request
        self.rsp_latency = lambda req: 0.0       # after it did, before the client sees the response
        self.watch_latency = lambda watch, ev: 0.0
        self.quirk_deleted_keeps_finalizer = True
        self.quirk_final_patch_bumps_rv = True
        self.bookmarks = False
        self._writer = 'env'
        self._req = None
        for rd in [ResDef('', 'v1', 'namespaces', 'Namespace', namespaced=False),
                   ResDef('', 'v1', 'events', 'Event'),
                   ResDef('apiextensions.k8s.io', 'v1', 'customresourcedefinitions',
                          'CustomResourceDefinition', namespaced=False)]:
            self.add_resource(rd, announce=False)

    # ------------------------------------------------------------------ resources / namespaces
    def add_resource(self, rd, announce=True):
        self.resdefs[rd.key] = rd
        self.log.setdefault(rd.key, [])
        self.horizon.setdefault(rd.key, 0)
        if announce and rd.group:
            name = f'{rd.plural}.{rd.group}'
            if (CRDS, None, name) not in self.objects:
                self.create(CRDS, None, name, {'spec': {'group': rd.group, 'names': {'plural': rd.plural, 'kind': rd.kind},
                                                        'scope': 'Namespaced' if rd.namespaced else 'Cluster'}})

    def remove_resource(self, rkey):
        rd = self.resdefs.pop(rkey, None)
        if rd is None:
            return
        for w in list(self.watches):
            if w.rkey == rkey:
                w.end()
        for k in [k for k in self.objects if k[0] == rkey]:
            del self.objects[k]
        name = f'{rd.plural}.{rd.group}'
        if (CRDS, None, name) in self.objects:
            self.delete(CRDS, None, name)

    def add_namespace(self, name):
        if (NAMESPACES, None, name) not in self.objects:
            self.create(NAMESPACES, None, name, {})

    def remove_namespace(self, name):
        for k in [k for k in self.objects if k[1] == name]:
            self.delete(*k, force=True)
        if (NAMESPACES, None, name) in self.objects:
            self.delete(NAMESPACES, None, name)

    # ------------------------------------------------------------------ state mutation
    def _next_rv(self):
        self.rv += 1
        return str(self.rv)

    def _record(self, k, type_, body):
        self.history.append(dict(seq=self.world.tick(), t=self.world.now, rkey=k[0], ns=k[1], name=k[2], uid=body['metadata'].get('uid'),
                                 rv=int(body['metadata']['resourceVersion']), type=type_,
                                 body=copy.deepcopy(body), writer=self._writer,
                                 req=self._req['id'] if self._req else None))

    def _emit(self, rkey, type_, body):
        snap = copy.deepcopy(body)
        self.log[rkey].append((int(snap['metadata']['resourceVersion']), type_, snap))
        for w in list(self.watches):
            if w.rkey == rkey and w.matches(snap):
                w.push({'type': type_, 'object': copy.deepcopy(snap)})

    def drop_watch(self, w):
        if w in self.watches:
            self.watches.remove(w)

    def create(self, rkey, ns, name, body, writer=None):
        rd = self.resdefs[rkey]
        k = (rkey, ns if rd.namespaced else None, name)
        if k in self.objects:
            return None
        prev = self._writer
        if writer is not None:
            self._writer = writer
        try:
            body = copy.deepcopy(body)
            self.uid_seq += 1
            meta = body.setdefault('metadata', {})
            meta.update(name=name, uid=f'uid-{self.uid_seq}', resourceVersion=self._next_rv(),
                        creationTimestamp=vclock.iso(self.world.now), generation=1)
            if rd.namespaced:
                meta['namespace'] = ns
            body.setdefault('apiVersion', rd.api_version)
            body.setdefault('kind', rd.kind)
            self._normalize(body)
            self.objects[k] = body
            self._record(k, 'ADDED', body)
            self._emit(rkey, 'ADDED', body)
            return body
        finally:
            self._writer = prev

    @staticmethod
    def _normalize(body):
        meta = body.setdefault('metadata', {})
        for f in ('finalizers', 'annotations', 'labels'):
            if f in meta and not meta[f]:
                del meta[f]

    def _store(self, k, new):
        """Store a changed body: no-op detection, generation, finalizer-driven deletion."""
        old = self.objects[k]
        self._normalize(new)
        if new == old:
            return old
        meta = new['metadata']
        if new.get('spec') != old.get('spec'):
            meta['generation'] = int(old['metadata'].get('generation', 1)) + 1
        if meta.get('deletionTimestamp') and not meta.get('finalizers'):
            del self.objects[k]
            gone = copy.deepcopy(new)
            if self.quirk_final_patch_bumps_rv:
                gone['metadata']['resourceVersion'] = self._next_rv()
            else:
                self.rv += 1    # the event log still needs an ordering position
            self._record(k, 'DELETED', gone)
            ev = copy.deepcopy(gone)
            if self.quirk_deleted_keeps_finalizer and old['metadata'].get('finalizers'):
                ev['metadata']['finalizers'] = list(old['metadata']['finalizers'])
            if not self.quirk_final_patch_bumps_rv:
                # deliver with the stale version number, but keep the log ordered by a fresh position
                snap = copy.deepcopy(ev)
                self.log[k[0]].append((self.rv, 'DELETED', snap))
                for w in list(self.watches):
                    if w.rkey == k[0] and w.matches(snap):
                        w.push({'type': 'DELETED', 'object': copy.deepcopy(snap)})
            else:
                self._emit(k[0], 'DELETED', ev)
            return gone
        meta['resourceVersion'] = self._next_rv()
        self.objects[k] = new
        self._record(k, 'MODIFIED', new)
        self._emit(k[0], 'MODIFIED', new)
        return new

    def edit(self, rkey, ns, name, fn, writer=None):
        k = (rkey, ns, name)
        if k not in self.objects:
            return None
        prev = self._writer
        if writer is not None:
            self._writer = writer
        try:
            new = copy.deepcopy(self.objects[k])
            fn(new)
            return self._store(k, new)
        finally:
            self._writer = prev

    def delete(self, rkey, ns, name, writer=None, force=False):
        k = (rkey, ns, name)
        if k not in self.objects:
            return None
        prev = self._writer
        if writer is not None:
            self._writer = writer
        try:
            obj = copy.deepcopy(self.objects[k])
            if obj['metadata'].get('finalizers') and not force:
                if not obj['metadata'].get('deletionTimestamp'):
                    obj['metadata']['deletionTimestamp'] = vclock.iso(self.world.now)
                    return self._store(k, obj)
                return obj
            del self.objects[k]
            obj['metadata']['resourceVersion'] = self._next_rv()
            self._record(k, 'DELETED', obj)
            self._emit(rkey, 'DELETED', obj)
            return obj
        finally:
            self._writer = prev

    def compact(self, rkey, upto=None):
        """Forget the watch history up to (and including) ``upto`` (default: everything so far)."""
        self.horizon[rkey] = self.rv if upto is None else upto

    def get(self, rkey, ns, name):
        return self.objects.get((rkey, ns, name))

    # ------------------------------------------------------------------ HTTP facade
    def _status(self, code, reason, message='', headers=None, details=None):
        payload = {'kind': 'Status', 'apiVersion': 'v1', 'status': 'Failure', 'code': code,
                   'reason': reason, 'message': message or reason}
        if details:
            payload['details'] = details
        return FakeResponse(code, payload, headers=headers)

    def _classify(self, method, parts, query, headers, rd, name, sub):
        classes = {method.lower()}
        if method == 'PATCH':
            classes.add('patch')
            ctype = headers.get('Content-Type')
            classes.add('merge' if ctype == 'application/merge-patch+json' else 'jsonpatch')
            if sub == 'status':
                classes.add('status')
        if method == 'GET' and rd is not None and name is None:
            classes.add('watch' if query.get('watch') == 'true' else 'list')
        if rd is None:
            classes.add('discovery')
        return classes

    def _parse(self, method, path, query, headers):
        parts = [p for p in path.split('/') if p]
        info = dict(parts=parts, rd=None, rkey=None, ns=None, name=None, sub=None, plural=None)
        if not parts or parts[0] not in ('api', 'apis'):
            return info
        if parts[0] == 'api':
            group, rest = '', parts[1:]
        else:
            if len(parts) < 2:
                return info
            group, rest = parts[1], parts[2:]
        if not rest:
            return info
        version, rest = rest[0], rest[1:]
        info.update(group=group, version=version)
        if not rest:
            return info
        ns = None
        if rest[0] == 'namespaces' and len(rest) >= 3:
            # /namespaces/{ns}/{plural}... but also /namespaces/{name}/status for the namespace itself
            if (group, version, rest[2]) in self.resdefs or not (group == '' and rest[2] in ('status', 'finalize')):
                ns, rest = rest[1], rest[2:]
        plural, rest = rest[0], rest[1:]
        rkey = (group, version, plural)
        info.update(rkey=rkey, plural=plural, ns=ns, rd=self.resdefs.get(rkey),
                    name=rest[0] if rest else None, sub=rest[1] if len(rest) > 1 else None)
        return info

    async def handle(self, session, method, url, payload, headers, total_timeout):
        parsed = urllib.parse.urlparse(url)
        path = parsed.path.rstrip('/')
        query = dict(urllib.parse.parse_qsl(parsed.query))
        loop = asyncio.get_running_loop()
        info = self._parse(method, path, query, headers)
        self.req_seq += 1
        req = dict(id=self.req_seq, seq=self.world.tick(), t=loop.time(), client=session.client_id, sid=session.sid, token=session.token, method=method,
                   path=path, query=query, ctype=headers.get('Content-Type'),
                   payload=copy.deepcopy(payload), name=info['name'], plural=info['plural'], ns=info['ns'],
                   sub=info['sub'], outcome=None, t_done=None, applied=False,
                   classes=self._classify(method, info['parts'], query, headers, info['rd'], info['name'], info['sub']))
        self.requests.append(req)
        t0 = loop.time()

        async def pause(dt):
            if dt and dt > 0:
                if total_timeout is not None and loop.time() - t0 + dt >= total_timeout:
                    await asyncio.sleep(max(0.0, total_timeout - (loop.time() - t0)))
                    req['outcome'] = 'client-timeout'
                    req['t_done'] = loop.time()
                    raise asyncio.TimeoutError()
                await asyncio.sleep(dt)

        effects = [f.spec for f in self.faults if f.take(req)]
        req['stream_faults'] = [e for e in effects if e.get('do') == 'stream']     # applied to the stream once it is open
        await pause(self.api_latency(req))
        for eff in effects:
            if eff['do'] == 'latency':
                await pause(eff.get('dt', 0.0))
        if session.token in self.revoked:
            req['outcome'] = 401
            req['t_done'] = loop.time()
            rsp = self._status(401, 'Unauthorized')
            rsp.req = req
            return rsp
        for eff in effects:
            do = eff['do']
            if do == 'kill_before':
                req['outcome'] = 'killed-before'
                self.kill_cb(session.client_id)
                await asyncio.Event().wait()    # never resumes: the process is dead
            if do == 'hook':
                self.hooks[eff['hook']](self, req)
            if do == 'status':
                hdrs = {}
                details = None
                if eff.get('retry_after_header') is not None:
                    hdrs['Retry-After'] = str(eff['retry_after_header'])
                if eff.get('retry_after_details') is not None:
                    details = {'retryAfterSeconds': eff['retry_after_details']}
                req['outcome'] = eff['code']
                req['t_done'] = loop.time()
                if eff['code'] == 401:
                    self.revoked.add(session.token)      # the server does not change its mind about these credentials
                rsp = self._status(eff['code'], eff.get('reason', 'Simulated'), headers=hdrs, details=details)
                rsp.req = req
                return rsp
            if do == 'exc':
                req['outcome'] = 'exc:' + eff['exc']
                req['t_done'] = loop.time()
                raise EXCS[eff['exc']]()
        prev_writer, prev_req = self._writer, self._req
        self._writer, self._req = session.client_id, req
        try:
            rsp = self.route(session, method, info, query, payload, headers, req)
        finally:
            self._writer, self._req = prev_writer, prev_req
        req['outcome'] = rsp.status
        req['seq_applied'] = self.world.tick()
        for eff in effects:
            do = eff['do']
            if do == 'kill_after':
                req['outcome'] = f'{rsp.status}+killed-after'
                rsp.close()
                self.kill_cb(session.client_id)
                await asyncio.Event().wait()
            if do == 'apply_then_fail':
                req['outcome'] = f'{rsp.status}+lost'
                req['t_done'] = loop.time()
                rsp.close()
                raise EXCS[eff.get('exc', 'conn')]()
        try:
            await pause(self.rsp_latency(req))
        except BaseException:
            rsp.close()
            raise
        req['t_done'] = loop.time()
        rsp.req = req
        if rsp.watch is not None and total_timeout is not None:
            w = rsp.watch
            loop.call_later(max(0.0, total_timeout - (loop.time() - t0)), self._client_timeout, w)
        return rsp

    def _client_timeout(self, w):
        if not w.aborted:
            w.abort(asyncio.TimeoutError())

    def route(self, session, method, info, query, payload, headers, req):
        parts = info['parts']
        if parts == ['version']:
            return FakeResponse(200, {'major': '1', 'minor': '30'})
        if parts == ['api']:
            return FakeResponse(200, {'versions': ['v1']})
        if parts == ['apis']:
            groups = {}
            for rd in self.resdefs.values():
                if rd.group:
                    groups.setdefault(rd.group, set()).add(rd.version)
            return FakeResponse(200, {'groups': [
                {'name': g, 'preferredVersion': {'version': self.preferred[g] if self.preferred.get(g) in vs else sorted(vs)[0]},
                 'versions': [{'version': v} for v in sorted(vs)]} for g, vs in sorted(groups.items())]})
        if 'group' not in info:
            return self._status(404, 'NotFound')
        group, version = info['group'], info['version']
        if info['rkey'] is None:
            rds = [rd for rd in self.resdefs.values() if rd.group == group and rd.version == version]
            if not rds:
                return self._status(404, 'NotFound')
            resources = []
            for rd in rds:
                resources.append({'name': rd.plural, 'singularName': rd.singular, 'kind': rd.kind,
                                  'namespaced': rd.namespaced, 'verbs': list(rd.verbs),
                                  'shortNames': list(rd.shortnames), 'categories': list(rd.categories)})
                if rd.status_sub:
                    resources.append({'name': f'{rd.plural}/status', 'singularName': '', 'kind': rd.kind,
                                      'namespaced': rd.namespaced, 'verbs': ['get', 'patch', 'update']})
            return FakeResponse(200, {'kind': 'APIResourceList', 'groupVersion': f'{group}/{version}'.strip('/'),
                                      'resources': resources})
        rkey, rd, ns, name, sub = info['rkey'], info['rd'], info['ns'], info['name'], info['sub']
        if rd is None:
            return self._status(404, 'NotFound', f'the server could not find the requested resource {rkey}')
        if ns is not None and rd.namespaced and (NAMESPACES, None, ns) not in self.objects and self.strict_namespaces:
            if method == 'GET' and name is None:
                pass    # listing/watching a missing namespace is legal (empty)
            else:
                return self._status(404, 'NotFound', f'namespace {ns} not found')
        if name is None and method == 'GET':
            if query.get('watch') == 'true':
                return self._watch(session, rkey, ns, query, req)
            items = [copy.deepcopy(o) for (rk, ons, _), o in sorted(
                        self.objects.items(), key=lambda kv: (kv[0][1] or '', kv[0][2]))
                     if rk == rkey and (ns is None or ons == ns)]
            req['listed'] = [(o['metadata']['uid'], o['metadata']['resourceVersion']) for o in items]
            req['list_rv'] = str(self.rv)
            return FakeResponse(200, {'kind': rd.kind + 'List', 'apiVersion': rd.api_version,
                                      'metadata': {'resourceVersion': str(self.rv)}, 'items': items})
        if name is None and method == 'POST':
            body = copy.deepcopy(payload) if isinstance(payload, dict) else {}
            meta = body.get('metadata', {})
            nm = meta.get('name')
            if nm is None:
                self.uid_seq += 1
                nm = meta.get('generateName', 'gen-') + f'{self.uid_seq:05d}'
            ons = ns if ns is not None else meta.get('namespace')
            created = self.create(rkey, ons if rd.namespaced else None, nm, body)
            if created is None:
                return self._status(409, 'AlreadyExists')
            req['applied'] = True
            return FakeResponse(201, created)
        if name is None:
            return self._status(405, 'MethodNotAllowed')
        k = (rkey, ns if rd.namespaced else None, name)
        if k not in self.objects:
            return self._status(404, 'NotFound', f'{rd.plural} "{name}" not found')
        req['target_uid'] = self.objects[k]['metadata']['uid']
        if method == 'GET':
            return FakeResponse(200, self.objects[k])
        if method == 'DELETE':
            req['applied'] = True
            return FakeResponse(200, self.delete(*k))
        if method == 'PATCH':
            ctype = headers.get('Content-Type')
            old = self.objects[k]
            if sub is not None and not (sub == 'status' and rd.status_sub):
                return self._status(404, 'NotFound', f'no subresource {sub}')
            if ctype == 'application/merge-patch+json':
                if not isinstance(payload, dict):
                    return self._status(400, 'BadRequest', 'a merge patch must be an object')
                puid = (payload.get('metadata') or {}).get('uid') if isinstance(payload.get('metadata'), dict) else None
                if puid is not None and puid != old['metadata']['uid']:
                    return self._status(422, 'Invalid', 'metadata.uid: field is immutable')
                new = rfc.merge_patch(old, payload)
            elif ctype == 'application/json-patch+json':
                try:
                    new = rfc.json_patch(old, payload)
                except rfc.TestFailed as e:
                    return self._status(422, 'Invalid', f'the server rejected our request due to an error in our request: test failed: {e}')
                except rfc.PatchError as e:
                    return self._status(422, 'Invalid', f'bad patch: {e}')
                if not isinstance(new, dict):
                    return self._status(422, 'Invalid', 'bad patch result')
            else:
                return self._status(415, 'UnsupportedMediaType')
            if not isinstance(new.get('metadata'), dict):
                new['metadata'] = {}
            for f in SYSTEM_META:
                if f in old['metadata']:
                    new['metadata'][f] = old['metadata'][f]
                else:
                    new['metadata'].pop(f, None)
            fins = new['metadata'].get('finalizers')
            if fins is not None and (not isinstance(fins, list) or not all(isinstance(f, str) for f in fins)):
                return self._status(422, 'Invalid', 'metadata.finalizers must be a list of strings')
            for f in ('labels', 'annotations'):
                m = new['metadata'].get(f)
                if m is not None and (not isinstance(m, dict) or not all(isinstance(v, str) for v in m.values())):
                    return self._status(422, 'Invalid', f'metadata.{f} must be a string map')
            for f in ('apiVersion', 'kind'):
                if f in old:
                    new[f] = old[f]
            if rd.status_sub:
                if sub == 'status':
                    keep = copy.deepcopy(old)
                    if 'status' in new:
                        keep['status'] = new['status']
                    else:
                        keep.pop('status', None)
                    new = keep
                else:
                    if 'status' in old:
                        new['status'] = copy.deepcopy(old['status'])
                    else:
                        new.pop('status', None)
            stored = self._store(k, new)
            req['applied'] = True
            req['result_rv'] = stored['metadata']['resourceVersion']
            return FakeResponse(200, stored)
        return self._status(405, 'MethodNotAllowed')

    strict_namespaces = False

    def _watch(self, session, rkey, ns, query, req):
        since = query.get('resourceVersion')
        w = Watch(self, session, rkey, ns, since)
        req['watch'] = w.id
        self.all_watches.append(w)
        rsp = FakeResponse(200, None, watch=w)
        # stream faults registered for this watch (by ordinal of watch requests on this resource)
        for spec in req.get('stream_faults') or []:
            w.fault_at[spec.get('at', 0)] = spec
        if since is not None and int(since) < self.horizon[rkey]:
            w.push({'type': 'ERROR', 'object': {'kind': 'Status', 'apiVersion': 'v1', 'status': 'Failure', 'code': 410,
                                                 'reason': 'Expired', 'message': f'too old resource version: {since} ({self.horizon[rkey]})'}})
            w.end()
            return rsp
        self.watches.append(w)
        if since is not None:
            for rv, t, body in list(self.log[rkey]):
                if rv > int(since) and w.matches(body):
                    w.push({'type': t, 'object': copy.deepcopy(body)})
                    if w.closed:
                        return rsp
        ts = query.get('timeoutSeconds')
        if ts is not None:
            w.loop.call_later(float(ts), self._expire, w)
        return rsp

    def _expire(self, w):
        if not w.closed:
            if self.bookmarks:
                w.push({'type': 'BOOKMARK', 'object': {'kind': 'Bookmark', 'metadata': {'resourceVersion': str(self.rv)}}})
            w.end()

    def _stream_fault(self, w, spec):
        kind = spec.get('kind', 'eof')
        if kind == 'eof':
            w.end()
        elif kind in EXCS:
            w.end(EXCS[kind]())
        elif kind == 'gone':
            w.push({'type': 'ERROR', 'object': {'kind': 'Status', 'apiVersion': 'v1', 'status': 'Failure', 'code': 410,
                                                 'reason': 'Expired', 'message': 'too old resource version'}})
            w.end()
        elif kind == 'error':
            w.push({'type': 'ERROR', 'object': {'kind': 'Status', 'apiVersion': 'v1', 'status': 'Failure',
                                                 'code': spec.get('code', 500), 'reason': 'InternalError', 'message': 'simulated'}})
        elif kind == 'bookmark':
            w.push({'type': 'BOOKMARK', 'object': {'kind': 'Bookmark', 'metadata': {'resourceVersion': str(self.rv)}}})
        elif kind == 'unknown-type':
            w.push({'type': 'WEIRD', 'object': {'metadata': {}}})

    def break_watches(self, rkey=None, kind='eof', client=None):
        for w in list(self.watches):
            if (rkey is None or w.rkey == rkey) and (client is None or w.session.client_id == client):
                if kind == 'eof':
                    w.end()
                else:
                    w.end(EXCS[kind]())

    def bookmark(self, rkey=None):
        for w in list(self.watches):
            if rkey is None or w.rkey == rkey:
                w.push({'type': 'BOOKMARK', 'object': {'kind': 'Bookmark', 'metadata': {'resourceVersion': str(self.rv)}}})

    def fence(self, client_id):
        for s in self.sessions:
            if s.client_id == client_id:
                s.fenced = True
        for w in list(self.watches):
            if w.session.client_id == client_id:
                w.closed = True
                w.closed_at = self.world.now
                w.closed_seq = self.world.tick()
                self.drop_watch(w)

    def open_watches(self, client_id=None):
        return [w for w in self.watches if client_id is None or w.session.client_id == client_id]
