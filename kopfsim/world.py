"""A World of several asyncio loops ("OS processes") that share one virtual clock."""
import asyncio
import heapq
import itertools
import math
import signal
import sys
import time as _walltime
import threading
from asyncio import events


class Livelock(RuntimeError):
    pass


class StepStall(BaseException):
    """One callback of a simulated process did not return within the wall-clock limit: the code under test blocks
    its event loop (a synchronous spin). It is raised *inside* the spinning code by a watchdog."""


STEP_LIMIT_S = 10.0
_DEBUG = bool(__import__('os').environ.get('VERIF_DEBUG_WATCHDOG'))
_watch = {'since': None, 'thread': None, 'fired': False, 'limit': STEP_LIMIT_S}


def _on_stall(signum, frame):
    if _watch['since'] is not None:
        _watch['fired'] = True
        _watch['limit'] = min(_watch['limit'], 3.0)    # once a blocked loop was seen in this process, re-detect it faster (shrinking replays it often)
        _watch['since'] = _walltime.monotonic()        # re-armed: the next callback of the same step may block as well
        raise StepStall()


def _watchdog():
    import time as _time
    while True:
        _time.sleep(0.5)
        since = _watch['since']
        if since is not None and _time.monotonic() - since > _watch['limit']:
            if _DEBUG:
                print('WATCHDOG: signalling', _time.monotonic() - since, flush=True)
            signal.pthread_kill(threading.main_thread().ident, signal.SIGUSR1)
            _time.sleep(0.5)


def _ensure_watchdog():
    if _watch['thread'] is None and threading.current_thread() is threading.main_thread():
        signal.signal(signal.SIGUSR1, _on_stall)
        t = threading.Thread(target=_watchdog, daemon=True, name='kopfsim-step-watchdog')
        t.start()
        _watch['thread'] = t


class ProcLoop(asyncio.SelectorEventLoop):
    """One simulated OS process. Its clock is the world's; it never blocks in select()."""

    def __init__(self, world, name):
        super().__init__()
        self.world, self.name = world, name
        self._time_reads = 0
        poll = self._selector.select
        self._selector.select = lambda timeout=None: poll(0)
        self.set_exception_handler(self._on_error)

    def _on_error(self, loop, context):
        self.world.loop_errors.append((self.name, context.get('message'), repr(context.get('exception'))))

    def time(self):
        # A real clock never stands still: code that polls the clock in a tight loop without yielding (e.g. an
        # "until now - t0 >= x" loop hit by float rounding) relies on that. After many reads within one callback
        # the virtual clock starts to creep by one representable step per read.
        self._time_reads += 1
        if self._time_reads > 5000:
            self.world.now = math.nextafter(self.world.now, math.inf)
        return self.world.now

    def call_later(self, delay, callback, *args, context=None):
        # In real life the clock moves on its own; in virtual time a positive delay smaller than the float spacing
        # at `now` would be absorbed (now + delay == now) and code that re-reads the clock after such a sleep would
        # spin forever at one instant. Make every positive delay advance the clock by at least one representable step.
        when = self.world.now + delay
        if delay > 0 and when <= self.world.now:
            when = math.nextafter(self.world.now, math.inf)
        return self.call_at(when, callback, *args, context=context)

    def next_when(self):
        sched = self._scheduled
        while sched and sched[0]._cancelled:
            handle = heapq.heappop(sched)
            handle._scheduled = False
            self._timer_cancelled_count -= 1
        return sched[0]._when if sched else None

    def runnable(self):
        if self._ready:
            return True
        when = self.next_when()
        return when is not None and when < self.world.now + self._clock_resolution

    def step(self):
        """Exactly one iteration of the loop (as run_forever() would do), without ever blocking."""
        old_hooks = sys.get_asyncgen_hooks()
        self._time_reads = 0
        self._thread_id = threading.get_ident()
        sys.set_asyncgen_hooks(firstiter=self._asyncgen_firstiter_hook, finalizer=self._asyncgen_finalizer_hook)
        events._set_running_loop(self)
        _watch['since'], _watch['fired'] = _walltime.monotonic(), False
        try:
            self._run_once()
        except StepStall:
            self.world.stalls.append((self.name, self.world.now))
        finally:
            if _watch['fired']:
                self.world.stalls.append((self.name, self.world.now))
            _watch['since'] = None
            self._thread_id = None
            events._set_running_loop(None)
            sys.set_asyncgen_hooks(*old_hooks)
        if len(self.world.stalls) >= 3:
            # the code under test keeps blocking its loop: there is nothing more to learn from this case, and each block costs seconds
            raise Livelock(f'process {self.name} blocked its event loop {len(self.world.stalls)} times (synchronous spin), last at t={self.world.now}')

    def freeze(self):
        """kill -9: whatever was ready or scheduled will never run."""
        for handle in list(self._ready):
            handle.cancel()
        for handle in list(self._scheduled):
            handle.cancel()


class World:
    def __init__(self, max_zero_time_steps=100_000):
        self.now = 0.0
        self.procs = {}       # name -> ProcLoop (alive)
        self.dead = []        # killed loops, closed at the end of the case
        self.agenda = []      # (when, seq, fn)
        self.seq = itertools.count()
        self.loop_errors = []
        self.stalls = []      # (process, virtual time): a callback blocked its loop beyond STEP_LIMIT_S of wall-clock time
        _ensure_watchdog()
        self.steps = 0
        self.max_zero_time_steps = max_zero_time_steps
        self.order = None     # optional callable: list of names -> list of names (schedule knob)
        self._tick = 0

    def tick(self):
        """A global sequence number: orders observations made at the same virtual instant."""
        self._tick += 1
        return self._tick

    def spawn(self, name):
        loop = ProcLoop(self, name)
        self.procs[name] = loop
        return loop

    def kill(self, name):
        """kill -9: not one more callback of that process ever runs."""
        loop = self.procs.pop(name)
        loop.freeze()
        self.dead.append(loop)
        return loop

    def at(self, when, fn):
        heapq.heappush(self.agenda, (max(when, self.now), next(self.seq), fn))

    def after(self, delay, fn):
        self.at(self.now + delay, fn)

    def run(self, until):
        zero = 0
        while True:
            progressed = False
            while self.agenda and self.agenda[0][0] <= self.now:
                _, _, fn = heapq.heappop(self.agenda)
                fn()
                progressed = True
            names = list(self.procs)
            if self.order is not None and len(names) > 1:
                names = self.order(names)
            for name in names:
                loop = self.procs.get(name)
                if loop is not None and loop.runnable():
                    loop.step()
                    progressed = True
            if progressed:
                zero += 1
                self.steps += 1
                if zero > 1000:
                    # A real clock never stands still between loop iterations. Let the virtual one creep by one
                    # representable step per iteration once nothing else moves it: loops of the kind
                    # "sleep(deadline - now) until now >= deadline" that hit a float-rounding residue then terminate,
                    # while a genuine busy loop (which needs seconds to pass) still ends in Livelock.
                    self.now = math.nextafter(self.now, math.inf)
                if zero > self.max_zero_time_steps:
                    raise Livelock(f'no progress of time within {zero} steps at t={self.now}')
                continue
            zero = 0
            nxt = [self.agenda[0][0]] if self.agenda else []
            for loop in self.procs.values():
                when = loop.next_when()
                if when is not None:
                    nxt.append(when)
            t = min(nxt) if nxt else None
            if t is None or t > until:
                self.now = max(self.now, until)
                return
            self.now = max(self.now, t)

    def run_for(self, dt):
        self.run(self.now + dt)

    def close(self):
        for loop in list(self.procs.values()) + self.dead:
            try:
                # Drop everything pending without running it (these processes are gone).
                loop._ready.clear()
                loop._scheduled.clear()
                loop.close()
            except Exception:
                pass
        self.procs.clear()
        self.dead.clear()
