"""Synchronous handlers in virtual time.

kopf runs synchronous handlers in an executor thread. Virtual time cannot own a free-running thread, so the harness
serialises them: a handler thread runs only while the world's thread waits for it, and it blocks ("parks") whenever it
wants virtual time to pass. `sleep(dt)` inside a synchronous handler = schedule a release on the world's agenda at
now+dt, then park. At every instant exactly one of (world thread, one handler thread) is running, so a case stays a
pure function of its scenario although real threads are involved.
"""
import concurrent.futures
import threading

SETTLE_TIMEOUT_S = 60.0


class ThreadAbort(BaseException):
    """Raised inside a parked handler thread when the case is over (or its process was killed)."""


class SimCall:
    def __init__(self, hub, owner, fn, args, kwargs):
        self.hub, self.owner = hub, owner
        self.fn, self.args, self.kwargs = fn, args, kwargs
        self.future = concurrent.futures.Future()
        self.gate = threading.Event()       # set by the world to let the thread run on
        self.settled = threading.Event()    # set by the thread when it parked or finished
        self.finished = False
        self.abort = False
        self.thread = threading.Thread(target=self._run, daemon=True, name=f'sync-handler of {owner}')
        self.thread.simcall = self

    def _run(self):
        try:
            try:
                result = self.fn(*self.args, **self.kwargs)
            except ThreadAbort:
                return
            except BaseException as e:
                try:
                    self.future.set_exception(e)
                except Exception:
                    pass       # (the loop of a killed process is closed: nobody listens)
            else:
                try:
                    self.future.set_result(result)
                except Exception:
                    pass
        finally:
            self.finished = True
            self.settled.set()

    def start(self):
        self.thread.start()
        self._wait_settled()

    def _wait_settled(self):
        if not self.settled.wait(SETTLE_TIMEOUT_S):
            raise RuntimeError(f'a synchronous handler of {self.owner} neither parked nor finished within {SETTLE_TIMEOUT_S}s of wall-clock time')

    def release(self):
        """Let the parked thread run until it parks again or finishes (the caller waits for that)."""
        if self.finished:
            return
        self.settled.clear()
        self.gate.set()
        self._wait_settled()

    # -- called from inside the handler thread
    def park(self):
        self.settled.set()
        self.gate.wait()
        self.gate.clear()
        if self.abort:
            raise ThreadAbort()


class SimExecutor(concurrent.futures.Executor):
    def __init__(self, hub, owner):
        self.hub, self.owner = hub, owner

    def submit(self, fn, /, *args, **kwargs):
        call = SimCall(self.hub, self.owner, fn, args, kwargs)
        self.hub.calls.append(call)
        call.start()
        return call.future

    def shutdown(self, wait=True, *, cancel_futures=False):
        pass


class ThreadHub:
    def __init__(self, world):
        self.world = world
        self.calls = []
        self.dead_owners = set()

    def executor(self, owner):
        return SimExecutor(self, owner)

    @staticmethod
    def current():
        return getattr(threading.current_thread(), 'simcall', None)

    def sleep(self, dt):
        """Inside a synchronous handler: let `dt` of virtual time pass."""
        call = self.current()
        if call is None:
            raise RuntimeError('ThreadHub.sleep() outside of a synchronous handler thread')

        def wake():
            if call.owner not in self.dead_owners:
                call.release()
        self.world.at(self.world.now + dt, wake)
        call.park()

    def kill(self, owner):
        """kill -9 of a process: its handler threads never run again (they stay parked until the case is closed)."""
        self.dead_owners.add(owner)

    def close(self):
        for call in self.calls:
            if not call.finished:
                call.abort = True
                call.settled.clear()
                call.gate.set()
                call.settled.wait(5.0)
        self.calls.clear()
