"""A virtual wall clock, patched into the kopf modules that read ``datetime.datetime.now()``."""
import datetime as _dt
import importlib
import types

EPOCH = _dt.datetime(2030, 1, 1, tzinfo=_dt.timezone.utc)
_clock = [lambda: 0.0]


def set_clock(fn):
    _clock[0] = fn


def vnow():
    return EPOCH + _dt.timedelta(seconds=_clock[0]())


def iso(t):
    """The ISO string of virtual instant ``t`` (seconds)."""
    return (EPOCH + _dt.timedelta(seconds=t)).isoformat()


def from_iso(s):
    d = _dt.datetime.fromisoformat(s)
    if d.tzinfo is None:
        d = d.replace(tzinfo=_dt.timezone.utc)
    return (d - EPOCH).total_seconds()


class VDateTime(_dt.datetime):
    @classmethod
    def now(cls, tz=None):
        real = vnow()
        return real.astimezone(tz) if tz is not None else real.replace(tzinfo=None)

    @classmethod
    def utcnow(cls):
        return vnow().replace(tzinfo=None)


shim = types.SimpleNamespace(**{k: getattr(_dt, k) for k in dir(_dt) if not k.startswith('__')})
shim.datetime = VDateTime


class TouchDateTime(_dt.datetime):
    """For kopf._core.actions.application only (the 'touch-dummy' value): "any unique always-changing value".
    In real life two touches are always some API round-trips apart; with a zero-latency API model two touches can
    fall on the same virtual microsecond and the second one would be a no-op PATCH (no event, processing stalls).
    Consecutive reads at one virtual instant therefore differ by one microsecond each."""
    _last = (None, 0)

    @classmethod
    def now(cls, tz=None):
        t = _clock[0]()
        last_t, n = cls._last
        n = n + 1 if last_t == t else 0
        cls._last = (t, n)
        real = vnow() + _dt.timedelta(microseconds=n)
        return real.astimezone(tz) if tz is not None else real.replace(tzinfo=None)


touch_shim = types.SimpleNamespace(**{k: getattr(_dt, k) for k in dir(_dt) if not k.startswith('__')})
touch_shim.datetime = TouchDateTime

MODULES = [
    'kopf._core.actions.progression', 'kopf._core.actions.application', 'kopf._core.engines.peering',
    'kopf._cogs.structs.credentials', 'kopf._cogs.clients.events', 'kopf._core.engines.probing',
]
_installed = False


def install():
    global _installed
    if _installed:
        return
    for name in MODULES:
        mod = importlib.import_module(name)
        assert hasattr(mod, 'datetime'), name
        mod.datetime = touch_shim if name == 'kopf._core.actions.application' else shim
    _installed = True
