"""Sim: one world + one API-server model + any number of simulated operator processes."""
import asyncio
import gc
import logging
import random
import sys
import warnings

import kopf

from kopfsim import vclock
from kopfsim.cluster import FakeCluster, ResDef
from kopfsim.opspec import LIFECYCLES, OperatorProgram, make_settings
from kopfsim.threads import ThreadHub
from kopfsim.world import Livelock, World

KEX = ('kopf.dev', 'v1', 'kopfexamples')
KEY = ('kopf.dev', 'v1', 'kopfwhys')
CPEER = ('kopf.dev', 'v1', 'clusterkopfpeerings')
NPEER = ('kopf.dev', 'v1', 'kopfpeerings')

_quiet = False


def quiet():
    global _quiet
    if not _quiet:
        logging.disable(logging.CRITICAL)
        warnings.simplefilter('ignore')
        # Coroutines of killed processes are destroyed, never resumed: their finalisation noise is not an observation.
        sys.unraisablehook = lambda *a, **kw: None
        _quiet = True


class Op:
    def __init__(self, sim, name, spec, kwargs):
        self.sim, self.name, self.spec = sim, name, spec
        self.loop = sim.world.spawn(name)
        self.program = OperatorProgram(sim, name, spec)
        self.settings = make_settings(spec)
        # synchronous handlers (if any) run in harness-owned threads that are serialised with the world (kopfsim/threads.py)
        self.settings.execution.executor = sim.threads.executor(name)
        self.stop_flag = None
        self.stop_pending = False     # a stop requested before the process got to run at all
        self.ready_flag = None
        self.started_at = sim.world.now
        self.exited_at = None
        self.exit = None          # None while running; ('ok',) / ('exc', repr) / ('cancelled',)
        self.killed_at = None
        self.ready_at = None
        opkw = dict(clusterwide=True, standalone=True)
        opkw.update(kwargs)
        lifecycle = LIFECYCLES[spec.get('lifecycle', 'asap')]

        async def main():
            self.stop_flag = asyncio.Event()
            self.ready_flag = asyncio.Event()
            if self.stop_pending:
                self.stop_flag.set()

            async def ready_watch():
                await self.ready_flag.wait()
                self.ready_at = sim.world.now
            watcher = asyncio.create_task(ready_watch())
            try:
                await kopf.operator(registry=self.program.registry, settings=self.settings,
                                    lifecycle=lifecycle, identity=name,
                                    stop_flag=self.stop_flag, ready_flag=self.ready_flag, **opkw)
                self.exit = ('ok',)
            except asyncio.CancelledError:
                self.exit = ('cancelled',)
            except BaseException as e:
                self.exit = ('exc', type(e).__name__, str(e)[:300],
                             type(e.__cause__).__name__ if e.__cause__ is not None else None)
            finally:
                self.exited_at = sim.world.now
                watcher.cancel()
        self.task = self.loop.create_task(main(), name=f'operator {name}')

    @property
    def alive(self):
        return self.killed_at is None and self.exit is None


class Sim:
    def __init__(self, resources=None, seed=0, namespaces=('default',), **quirks):
        quiet()
        vclock.install()
        random.seed(seed)
        self.world = World()
        self.threads = ThreadHub(self.world)
        vclock.set_clock(lambda: self.world.now)
        self.cluster = FakeCluster(self.world)
        for k, v in quirks.items():
            if not hasattr(self.cluster, k):
                raise AttributeError(k)
            setattr(self.cluster, k, v)
        self.cluster.kill_cb = self.kill
        self.trace = []
        self.script_pos = {}
        self.login_hook = None
        self.ops = {}
        for ns in namespaces:
            self.cluster.add_namespace(ns)
        for rd in (resources if resources is not None else [ResDef('kopf.dev', 'v1', 'kopfexamples', 'KopfExample')]):
            self.cluster.add_resource(rd)
        self.notes = []

    # -- operators
    def start(self, name, spec, **kwargs):
        assert name not in self.ops, name
        op = Op(self, name, spec, kwargs)
        self.ops[name] = op
        self.note('start', name)
        return op

    def stop(self, name):
        op = self.ops[name]
        if op.alive and op.stop_flag is not None:
            op.loop.call_soon(op.stop_flag.set)
            self.note('stop', name)
        elif op.alive:
            op.stop_pending = True
            self.note('stop', name)

    def cancel(self, name):
        op = self.ops[name]
        if op.alive:
            op.loop.call_soon(op.task.cancel)
            self.note('cancel', name)

    def kill(self, name):
        op = self.ops.get(name)
        if op is None or op.killed_at is not None or name not in self.world.procs:
            return
        op.killed_at = self.world.now
        self.cluster.fence(name)
        self.threads.kill(name)
        self.world.kill(name)
        self.note('kill', name)

    def reap(self):
        """Remove the loops of operators that have exited on their own (their process is gone)."""
        for name, op in self.ops.items():
            if op.exit is not None and name in self.world.procs and not op.loop.runnable():
                self.cluster.fence(name)
                self.world.kill(name)

    def note(self, what, *args):
        self.notes.append((self.world.now, what) + args)

    # -- time
    def run_for(self, dt):
        self.world.run_for(dt)

    def run_until(self, t):
        self.world.run(t)

    def calls(self, **match):
        return [r for r in self.trace if r.get('k') == 'call' and all(r.get(k) == v for k, v in match.items())]

    def close(self):
        self.threads.close()
        for name in list(self.world.procs):
            self.cluster.fence(name)
            self.world.kill(name)
        self.world.close()
        self.ops.clear()
        gc.collect()


__all__ = ['Sim', 'ResDef', 'Livelock', 'KEX', 'KEY', 'CPEER', 'NPEER']
