"""Independent implementations of RFC 7386 (JSON merge patch) and RFC 6902 (JSON patch).

Written from the RFCs; shares no code with kopf's ``patches``/``dicts`` nor with ``jsonpatch``,
so that it can serve as an oracle for both.
"""
import copy


def merge_patch(target, patch):
    """RFC 7386 MergePatch(Target, Patch); never aliases or mutates its arguments."""
    return _merge(copy.deepcopy(target), patch)


def _merge(target, patch):
    if not isinstance(patch, dict):
        return copy.deepcopy(patch)
    result = target if isinstance(target, dict) else {}
    for key, value in patch.items():
        if value is None:
            result.pop(key, None)
        else:
            result[key] = _merge(result.get(key), value)
    return result


class PatchError(Exception):
    pass


class TestFailed(PatchError):
    pass


def _unescape(token):
    return token.replace('~1', '/').replace('~0', '~')


def parse_pointer(pointer):
    if pointer == '':
        return []
    if not pointer.startswith('/'):
        raise PatchError(f'bad pointer {pointer!r}')
    return [_unescape(t) for t in pointer[1:].split('/')]


def _index(token, length, allow_end):
    if token == '-':
        if allow_end:
            return length
        raise PatchError('"-" is not allowed here')
    if not token.isdigit() or (len(token) > 1 and token[0] == '0'):
        raise PatchError(f'bad array index {token!r}')
    idx = int(token)
    if idx > length or (idx == length and not allow_end):
        raise PatchError(f'index {idx} out of range')
    return idx


def _walk(doc, tokens):
    cur = doc
    for tok in tokens:
        if isinstance(cur, dict):
            if tok not in cur:
                raise PatchError(f'path not found at {tok!r}')
            cur = cur[tok]
        elif isinstance(cur, list):
            cur = cur[_index(tok, len(cur), False)]
        else:
            raise PatchError(f'cannot descend into a scalar at {tok!r}')
    return cur


def _get(doc, pointer):
    return _walk(doc, parse_pointer(pointer))


def _add(doc, pointer, value):
    tokens = parse_pointer(pointer)
    if not tokens:
        return copy.deepcopy(value)
    parent = _walk(doc, tokens[:-1])
    last = tokens[-1]
    if isinstance(parent, dict):
        parent[last] = copy.deepcopy(value)
    elif isinstance(parent, list):
        parent.insert(_index(last, len(parent), True), copy.deepcopy(value))
    else:
        raise PatchError('cannot add into a scalar')
    return doc


def _remove(doc, pointer):
    tokens = parse_pointer(pointer)
    if not tokens:
        raise PatchError('cannot remove the root')
    parent = _walk(doc, tokens[:-1])
    last = tokens[-1]
    if isinstance(parent, dict):
        if last not in parent:
            raise PatchError(f'nothing to remove at {pointer!r}')
        del parent[last]
    elif isinstance(parent, list):
        del parent[_index(last, len(parent), False)]
    else:
        raise PatchError('cannot remove from a scalar')
    return doc


def json_patch(doc, ops):
    """Apply RFC 6902 operations to a deep copy of ``doc``; raise PatchError/TestFailed."""
    doc = copy.deepcopy(doc)
    if not isinstance(ops, list):
        raise PatchError('a JSON patch must be an array')
    for op in ops:
        if not isinstance(op, dict) or 'op' not in op or 'path' not in op:
            raise PatchError(f'malformed operation {op!r}')
        kind, path = op['op'], op['path']
        if kind == 'add':
            doc = _add(doc, path, op['value'])
        elif kind == 'remove':
            doc = _remove(doc, path)
        elif kind == 'replace':
            _get(doc, path)
            tokens = parse_pointer(path)
            if not tokens:
                doc = copy.deepcopy(op['value'])
            else:
                parent = _walk(doc, tokens[:-1])
                if isinstance(parent, dict):
                    parent[tokens[-1]] = copy.deepcopy(op['value'])
                else:
                    parent[_index(tokens[-1], len(parent), False)] = copy.deepcopy(op['value'])
        elif kind == 'test':
            try:
                actual = _get(doc, path)
            except PatchError as e:
                raise TestFailed(str(e))
            if actual != op.get('value'):
                raise TestFailed(f'{path}: {actual!r} != {op.get("value")!r}')
        elif kind == 'move':
            value = _get(doc, op['from'])
            doc = _remove(doc, op['from'])
            doc = _add(doc, path, value)
        elif kind == 'copy':
            doc = _add(doc, path, _get(doc, op['from']))
        else:
            raise PatchError(f'unknown op {kind!r}')
    return doc


def strip_empty(value):
    """Remove empty mappings recursively (for comparisons 'up to the presence of empty mappings')."""
    if isinstance(value, dict):
        out = {}
        for k, v in value.items():
            v = strip_empty(v)
            if isinstance(v, dict) and not v:
                continue
            out[k] = v
        return out
    if isinstance(value, list):
        return [strip_empty(v) for v in value]
    return value


def strip_nulls(value):
    """null-valued keys are equivalent to absent keys (documented equivalence of kopf's diffs)."""
    if isinstance(value, dict):
        return {k: strip_nulls(v) for k, v in value.items() if v is not None}
    if isinstance(value, list):
        return [strip_nulls(v) for v in value]
    return value
