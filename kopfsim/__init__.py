"""kopfsim: a virtual-time, multi-process simulation harness around the *unmodified* kopf of /repo."""
