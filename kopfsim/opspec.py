"""Build a real kopf registry/settings from a declarative, JSON-able operator spec.

Every generated handler is the same *recorder*: it logs its invocation (and what it was given)
to the simulation's trace, sleeps its generated duration, applies its generated patch actions,
and returns/raises according to its outcome script.
"""
import asyncio
import copy

import kopf
from kopf._core.intents.registries import OperatorRegistry

from kopfsim.cluster import FakeSession

ERRORS = {None: None, 'temporary': kopf.ErrorsMode.TEMPORARY, 'permanent': kopf.ErrorsMode.PERMANENT,
          'ignored': kopf.ErrorsMode.IGNORED}
LIFECYCLES = {'asap': kopf.lifecycles.asap, 'one_by_one': kopf.lifecycles.one_by_one,
              'all_at_once': kopf.lifecycles.all_at_once, 'randomized': kopf.lifecycles.randomized,
              'shuffled': kopf.lifecycles.shuffled}


class ScriptedError(Exception):
    """An 'arbitrary' (neither temporary nor permanent) exception raised by generated handlers."""


# ---------------------------------------------------------------------------------- callbacks
# A small library of pure & total filter callbacks, referenced from specs by name.
CALLBACKS = {
    'true': lambda *a, **kw: True,
    'false': lambda *a, **kw: False,
    'is1': lambda v, **kw: v == 1,
    'is2': lambda v, **kw: v == 2,
    'isa': lambda v, **kw: v == 'a',
    'isnone': lambda v, **kw: v is None,
    'notnone': lambda v, **kw: v is not None,
    'spec_on': lambda spec=None, **kw: bool((spec or {}).get('on')),
    'label_on': lambda labels=None, **kw: (labels or {}).get('on') == 'yes',
}


def decode_filter(v):
    if isinstance(v, str) and v.startswith('@'):
        if v == '@present':
            return kopf.PRESENT
        if v == '@absent':
            return kopf.ABSENT
        if v.startswith('@cb:'):
            return CALLBACKS[v[4:]]
        raise ValueError(v)
    return v


def decode_meta(m):
    if not m:
        return None
    return {k: decode_filter(v) for k, v in m.items()}


# ---------------------------------------------------------------------------------- storages
def make_progress_storage(cfg):
    cfg = dict(cfg or {'kind': 'smart'})
    kind = cfg.pop('kind')
    if kind == 'smart':
        return kopf.SmartProgressStorage(**cfg)
    if kind == 'annotations':
        return kopf.AnnotationsProgressStorage(**cfg)
    if kind == 'status':
        return kopf.StatusProgressStorage(**cfg)
    if kind == 'multi':
        return kopf.MultiProgressStorage([make_progress_storage(c) for c in cfg['storages']])
    raise ValueError(kind)


def make_diffbase_storage(cfg):
    cfg = dict(cfg or {'kind': 'annotations'})
    kind = cfg.pop('kind')
    if kind == 'annotations':
        return kopf.AnnotationsDiffBaseStorage(**cfg)
    if kind == 'status':
        return kopf.StatusDiffBaseStorage(**cfg)
    if kind == 'multi':
        return kopf.MultiDiffBaseStorage([make_diffbase_storage(c) for c in cfg['storages']])
    raise ValueError(kind)


class ReIterable:
    """Re-iterable, but neither Sized nor a sequence (one of the documented shapes of backoff/delay settings)."""
    def __init__(self, items):
        self.items = list(items)

    def __iter__(self):
        return iter(list(self.items))


def make_settings(spec):
    settings = kopf.OperatorSettings()
    settings.process.ultimate_exiting_timeout = None
    settings.posting.enabled = False
    settings.scanning.disabled = spec.get('scanning_disabled', False)
    if spec.get('progress_storage') is not None:
        settings.persistence.progress_storage = make_progress_storage(spec['progress_storage'])
    if spec.get('diffbase_storage') is not None:
        settings.persistence.diffbase_storage = make_diffbase_storage(spec['diffbase_storage'])
    for dotted, value in (spec.get('settings') or {}).items():
        obj = settings
        parts = dotted.split('.')
        for p in parts[:-1]:
            obj = getattr(obj, p)
        if not hasattr(obj, parts[-1]):
            raise AttributeError(dotted)
        if isinstance(value, dict) and set(value) == {'reiter'}:
            value = ReIterable(value['reiter'])
        elif isinstance(value, dict) and set(value) == {'tuple'}:
            value = tuple(value['tuple'])
        setattr(obj, parts[-1], value)
    return settings


# ---------------------------------------------------------------------------------- recorder
def snapshot_body(body):
    try:
        raw = dict(body)
    except Exception:
        return None
    return copy.deepcopy(raw)


def snapshot_indices(kw, names):
    out = {}
    for name in names:
        idx = kw.get(name)
        if idx is None:
            continue
        out[name] = {repr(k) if not isinstance(k, str) else k: sorted((repr(v) for v in idx[k])) for k in idx}
    return out


class OperatorsTemporaryError(kopf.TemporaryError):
    """Operators define their own error classes on top of kopf's: they are temporary/permanent errors just as well."""


class OperatorsPermanentError(kopf.PermanentError):
    pass


class OperatorProgram:
    """Turns a spec into a registry bound to one operator incarnation of a Sim."""

    def __init__(self, sim, inc, spec):
        self.sim, self.inc, self.spec = sim, inc, spec
        self.registry = OperatorRegistry()
        self.index_names = [h['id'] for h in spec.get('handlers', []) if h['kind'] == 'index']
        self.login_count = 0
        self.sessions = []
        self._build()

    # -- helpers
    def _now(self):
        return self.sim.world.now

    def _begin(self, h, kind, kw, extra=None):
        body = kw.get('body')
        view = snapshot_body(body) if body is not None else None
        meta = (view or {}).get('metadata', {})
        rec = dict(k='call', seq=self.sim.world.tick(), inc=self.inc, hid=h['id'], kind=kind, t0=self._now(), t1=None, outcome=None,
                   uid=meta.get('uid'), name=meta.get('name'), ns=meta.get('namespace'),
                   rv=meta.get('resourceVersion'), view=view,
                   retry=kw.get('retry'), started=kw.get('started').isoformat() if kw.get('started') is not None else None,
                   reason=str(kw['reason']) if kw.get('reason') is not None else None)
        if 'type' in kw and kind == 'event':
            rec['type'] = kw['type']
        for f in ('old', 'new'):
            if f in kw:
                rec[f] = copy.deepcopy(kw[f]) if not hasattr(kw[f], 'items') else copy.deepcopy(dict(kw[f])) if kw[f] is not None else None
        if 'diff' in kw and kw['diff'] is not None:
            rec['diff'] = [list(d) for d in kw['diff']]
        if self.index_names and h.get('snap_indices', True):
            rec['indices'] = snapshot_indices(kw, self.index_names)
        if extra:
            rec.update(extra)
        self.sim.trace.append(rec)
        return rec

    def _script_step(self, h, uid):
        key = (h['id'], uid)
        n = self.sim.script_pos.get(key, 0)
        self.sim.script_pos[key] = n + 1
        script = h.get('script') or []
        step = script[n] if n < len(script) else {'o': 'ok'}
        durs = h.get('duration', 0)
        if isinstance(durs, (list, tuple)):
            dur = durs[n] if n < len(durs) else (durs[-1] if durs else 0)
        else:
            dur = durs
        return n, step, dur

    def _apply_patch_actions(self, h, kw, rec, n):
        patch = kw.get('patch')
        if patch is None:
            return
        for act in h.get('patch') or []:
            if act.get('on_attempt') is not None and act['on_attempt'] != n:
                continue
            if 'set' in act:
                path = list(act['set'])
                val = act['value']
                if val == '@attempt':
                    val = f'{h["id"]}#{n}'
                d = patch
                for p in path[:-1]:
                    d = d.setdefault(p, {})
                d[path[-1]] = copy.deepcopy(val)
                rec.setdefault('patched', []).append([path, val])
            elif 'fn' in act:
                marker = f'{act["fn"]}:{h["id"]}:{rec["uid"]}:{n}:{self.inc}'
                mode = act.get('mode', 'append')     # append: non-idempotent; set: idempotent
                field = act.get('field', 'markers')

                zone = act.get('zone', 'spec')

                def fn(body, marker=marker, mode=mode, field=field, zone=zone):
                    spec = body.setdefault(zone, {})
                    if mode == 'append':
                        spec.setdefault(field, []).append(marker)
                    else:
                        lst = spec.setdefault(field, [])
                        if marker not in lst:
                            lst.append(marker)
                patch.fns.append(fn)
                rec.setdefault('fns', []).append(marker)

    async def _outcome(self, h, step, rec, result=None):
        return self._outcome_sync(h, step, rec, result)

    def _outcome_sync(self, h, step, rec, result=None):
        o = step['o']
        rec['outcome'] = o
        if o == 'ok':
            res = h.get('result', result)
            rec['result'] = res
            return copy.deepcopy(res)
        if o == 'temp':
            rec['delay'] = step.get('delay', 60)
            raise (OperatorsTemporaryError if step.get('sub') else kopf.TemporaryError)(f'temp#{rec["attempt"]}', delay=step.get('delay', 60))
        if o == 'perm':
            raise (OperatorsPermanentError if step.get('sub') else kopf.PermanentError)(f'perm#{rec["attempt"]}')
        if o == 'err':
            raise ScriptedError(f'err#{rec["attempt"]}')
        raise ValueError(o)

    # -- handler factories
    def _make_plain(self, h, kind):
        if h.get('sync'):
            return self._make_plain_sync(h, kind)
        prog = self

        async def fn(**kw):
            rec = prog._begin(h, kind, kw)
            n, step, dur = prog._script_step(h, rec['uid'])
            rec['attempt'] = n
            try:
                if dur:
                    await asyncio.sleep(dur)
                prog._apply_patch_actions(h, kw, rec, n)
                for sub in h.get('subs') or []:
                    prog._register_sub(sub)
                return await prog._outcome(h, step, rec)
            except asyncio.CancelledError:
                rec['outcome'] = 'cancelled'
                raise
            finally:
                rec['t1'] = prog._now()
                rec['seq1'] = prog.sim.world.tick()
        fn.__name__ = fn.__qualname__ = h['id'].replace('/', '_')
        return fn

    def _make_plain_sync(self, h, kind):
        """The synchronous form of the same recorder: kopf runs it in an executor thread (see kopfsim/threads.py)."""
        prog = self

        def fn(**kw):
            rec = prog._begin(h, kind, kw)
            rec['sync'] = True
            n, step, dur = prog._script_step(h, rec['uid'])
            rec['attempt'] = n
            try:
                if dur:
                    prog.sim.threads.sleep(dur)
                prog._apply_patch_actions(h, kw, rec, n)
                for sub in h.get('subs') or []:
                    prog._register_sub(sub)
                return prog._outcome_sync(h, step, rec)
            finally:
                rec['t1'] = prog._now()
                rec['seq1'] = prog.sim.world.tick()
        fn.__name__ = fn.__qualname__ = h['id'].replace('/', '_')
        return fn

    def _register_sub(self, sub):
        fn = self._make_plain(dict(sub, id=f'{kopf_parent_id()}/{sub["id"]}'), 'sub')
        kopf.subhandler(id=sub['id'], **self._common(sub), **self._filters(sub, oldnew=True))(fn)

    def _make_index(self, h):
        prog = self

        async def fn(**kw):
            rec = prog._begin(h, 'index', kw)
            body = rec['view'] or {}
            # The result is scripted by the object itself: spec.idx[<handler id>] or spec.idx['*'].
            plan = (body.get('spec') or {}).get('idx') or {}
            step = h['fixed'] if h.get('fixed') else plan.get(h['id'], plan.get('*', {'r': 'dict'}))
            rec['step'] = step
            try:
                if step.get('slow'):
                    await asyncio.sleep(step['slow'])
                r = step.get('r', 'dict')
                rec['outcome'] = r
                if r == 'dict':
                    if step.get('kv') is not None:
                        return dict(step['kv'])
                    return {step.get('k', 'k'): step.get('v', rec['name'])}
                if r == 'scalar':
                    return step.get('v', rec['name'])
                if r == 'none':
                    return None
                if r == 'temp':
                    raise kopf.TemporaryError('idx-temp', delay=step.get('delay', 1))
                if r == 'perm':
                    raise kopf.PermanentError('idx-perm')
                if r == 'err':
                    raise ScriptedError('idx-err')
                raise ValueError(r)
            except asyncio.CancelledError:
                rec['outcome'] = 'cancelled'
                raise
            finally:
                rec['t1'] = prog._now()
                rec['seq1'] = prog.sim.world.tick()
        fn.__name__ = fn.__qualname__ = h['id']
        return fn

    def _make_daemon(self, h):
        prog = self

        async def fn(**kw):
            stopped = kw['stopped']
            rec = prog._begin(h, 'daemon', kw)
            n, step, dur = prog._script_step(h, rec['uid'])
            rec['attempt'] = n
            behaviour = h.get('behaviour', 'obey')
            rec['behaviour'] = behaviour

            async def _flag_watch():
                await stopped.wait()
                rec['flag_set_at'] = prog._now()
            flag_watch = asyncio.create_task(_flag_watch())
            try:
                if behaviour == 'exit':
                    if dur:
                        await asyncio.sleep(dur)
                    prog._apply_patch_actions(h, kw, rec, n)
                    return await prog._outcome(h, step, rec)
                if behaviour == 'obey':
                    await stopped.wait()
                    rec['flag_seen'] = prog._now()
                    if h.get('exit_delay'):
                        await asyncio.sleep(h['exit_delay'])
                elif behaviour == 'cancel':       # ignores the flag; reacts only to cancellation
                    try:
                        await asyncio.Event().wait()
                    except asyncio.CancelledError:
                        rec['cancel_seen'] = prog._now()
                        raise
                elif behaviour == 'ignore':       # ignores the flag and swallows cancellations
                    while True:
                        try:
                            await asyncio.Event().wait()
                        except asyncio.CancelledError:
                            rec.setdefault('cancels_swallowed', []).append(prog._now())
                rec['outcome'] = 'stopped'
            except asyncio.CancelledError:
                rec['outcome'] = 'cancelled'
                raise
            finally:
                flag_watch.cancel()
                if bool(stopped) and rec.get('flag_set_at') is None:
                    rec['flag_set_at'] = prog._now()
                rec['t1'] = prog._now()
                rec['seq1'] = prog.sim.world.tick()
                rec['stopped_reason'] = str(stopped.reason) if getattr(stopped, 'reason', None) is not None else None
                rec['stopped_set'] = bool(stopped)
        fn.__name__ = fn.__qualname__ = h['id']
        return fn

    def _make_sync_daemon(self, h):
        """A synchronous daemon (kopf runs it in an executor thread): it polls its stop flag every `poll` virtual seconds and
        returns `linger` virtual seconds after it first saw the flag set. Cancellation cannot reach it (there is no way to
        cancel a thread): only the flag does."""
        prog = self

        def fn(**kw):
            stopped = kw['stopped']
            rec = prog._begin(h, 'daemon', kw)
            rec['sync'] = True
            rec['attempt'] = 0
            rec['behaviour'] = 'sync'
            seen = None
            try:
                while True:
                    prog.sim.threads.sleep(h.get('poll', 1.0))
                    if bool(stopped):
                        if seen is None:
                            seen = prog._now()
                            rec['flag_seen'] = seen
                            rec['flag_set_at'] = seen
                        if prog._now() - seen >= h.get('linger', 0.0) - 1e-9:
                            break
                rec['outcome'] = 'stopped'
            finally:
                rec['t1'] = prog._now()
                rec['seq1'] = prog.sim.world.tick()
                rec['stopped_reason'] = str(stopped.reason) if getattr(stopped, 'reason', None) is not None else None
                rec['stopped_set'] = bool(stopped)
        fn.__name__ = fn.__qualname__ = h['id']
        return fn

    def _make_activity(self, h, kind):
        prog = self

        async def fn(**kw):
            rec = dict(k='call', seq=prog.sim.world.tick(), inc=prog.inc, hid=h['id'], kind=kind, t0=prog._now(), t1=None, outcome=None,
                       uid=None, retry=kw.get('retry'))
            prog.sim.trace.append(rec)
            n, step, dur = prog._script_step(h, None)
            rec['attempt'] = n
            try:
                if dur:
                    await asyncio.sleep(dur)
                return await prog._outcome(h, step, rec)
            except asyncio.CancelledError:
                rec['outcome'] = 'cancelled'
                raise
            finally:
                rec['t1'] = prog._now()
                rec['seq1'] = prog.sim.world.tick()
        fn.__name__ = fn.__qualname__ = h['id']
        return fn

    # -- decorator arguments
    def _common(self, h):
        out = dict(errors=ERRORS[h.get('errors')], retries=h.get('retries'), timeout=h.get('timeout'),
                   backoff=h.get('backoff'))
        return out

    def _filters(self, h, oldnew=False, field=True):
        out = dict(labels=decode_meta(h.get('labels')), annotations=decode_meta(h.get('annotations')),
                   when=decode_filter(h['when']) if h.get('when') else None)
        if field:
            out['field'] = h.get('field')
            out['value'] = decode_filter(h.get('value'))
        if oldnew:
            out['old'] = decode_filter(h.get('old'))
            out['new'] = decode_filter(h.get('new'))
        return out

    def _build(self):
        reg = self.registry
        prog = self

        @kopf.on.login(registry=reg, id='login', retries=self.spec.get('login_retries'))
        async def login(**kw):
            prog.login_count += 1
            rec = dict(k='call', seq=prog.sim.world.tick(), inc=prog.inc, hid='login', kind='login', t0=prog._now(), t1=prog._now(),
                       outcome='ok', uid=None, n=prog.login_count)
            prog.sim.trace.append(rec)
            hook = prog.sim.login_hook
            if hook is not None:
                r = await hook(prog, rec)
                if r is not None:
                    return r
            session = FakeSession(prog.sim.cluster, client_id=prog.inc)
            prog.sessions.append(session)
            rec['sid'] = session.sid
            return kopf.AiohttpSession(server='http://fake', aiohttp_session=session,
                                       default_namespace=prog.spec.get('default_namespace'))

        for h in self.spec.get('handlers', []):
            kind = h['kind']
            res = h.get('resource', self.spec.get('resource', 'kopfexamples'))
            sel = res if isinstance(res, (list, tuple)) else [res]
            sel = [kopf.EVERYTHING if x == '@everything' else x for x in sel]
            selkw = dict(h.get('resource_kw') or {})      # kind=/plural=/singular=/shortcut=/category=/group=/version=
            if selkw and 'resource' not in h:
                sel = []
            if kind in ('startup', 'cleanup'):
                deco = getattr(kopf.on, kind)(registry=reg, id=h['id'], **self._common(h))
                deco(self._make_activity(h, kind))
            elif kind == 'event':
                kopf.on.event(*sel, registry=reg, id=h['id'], **selkw, **self._filters(h))(self._make_plain(h, 'event'))
            elif kind == 'index':
                kopf.index(*sel, registry=reg, id=h['id'], **self._common(h), **self._filters(h))(self._make_index(h))
            elif kind in ('create', 'update', 'delete', 'resume', 'field'):
                extra = {}
                if kind == 'delete' and h.get('optional') is not None:
                    extra['optional'] = h['optional']
                if kind == 'resume' and h.get('deleted') is not None:
                    extra['deleted'] = h['deleted']
                deco = getattr(kopf.on, kind)(*sel, registry=reg, id=h['id'], **selkw, **self._common(h), **extra,
                                              **self._filters(h, oldnew=kind in ('update', 'field')))
                fn = self._make_plain(h, kind)
                deco(fn)
                for also in h.get('also') or []:      # the same function under more decorators
                    getattr(kopf.on, also)(*sel, registry=reg, id=h['id'], **self._common(h),
                                           **self._filters(h, oldnew=also in ('update', 'field')))(fn)
            elif kind == 'daemon':
                kopf.daemon(*sel, registry=reg, id=h['id'], **self._common(h), **self._filters(h),
                            initial_delay=_delay(h.get('initial_delay')),
                            cancellation_backoff=h.get('cancellation_backoff'),
                            cancellation_timeout=h.get('cancellation_timeout'),
                            cancellation_polling=h.get('cancellation_polling'))(self._make_sync_daemon(h) if h.get('sync') else self._make_daemon(h))
            elif kind == 'timer':
                kopf.timer(*sel, registry=reg, id=h['id'], **self._common(h), **self._filters(h),
                           interval=h.get('interval'), sharp=h.get('sharp'), idle=h.get('idle'),
                           initial_delay=_delay(h.get('initial_delay')))(self._make_plain(h, 'timer'))
            else:
                raise ValueError(kind)


def _delay(v):
    """A constant, or '@callable:<seconds>' for the callable form of initial_delay."""
    if isinstance(v, str) and v.startswith('@callable:'):
        secs = float(v.split(':', 1)[1])
        return lambda **_: secs
    return v


def kopf_parent_id():
    from kopf._core.actions import execution
    return execution.handler_var.get().id
