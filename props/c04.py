"""C04 — Change detection is exact: own writes invisible, diffs sound and complete."""
import copy
import json

from hypothesis import strategies as st

from kopfsim import rfc
from runner.pbt import CaseResult, explore

ID = 'C04'
LEVEL = 'exploration'
RULE = ('Hypothesis-generated object bodies (recursive JSON, nulls, empty containers, unicode keys, kopf-looking / '
        'other-operator / kubectl annotations) x storage configurations x handler ids/records x field paths; each case '
        'applies framework writes (P1), status/system-metadata edits (P2), essential edits (P3) and diff round-trips incl. '
        'field reduction (P4) through kopf\'s own storages/diffs and compares with independent merge/apply functions; '
        'plus closed-loop two-operator ping-pong scenarios (P5) and closed-loop histories (restarts, re-listings, deletions) in which every '
        'change handler - whole-object or narrowed to a field - gets its old/new/diff kwargs compared with the independently read '
        'last-handled state and essence of the very body it was given (P6). Non-trivial: body nesting depth >= 2 with >=1 kopf-owned '
        'key present and >=1 of {null value, empty container, another operator\'s prefix}; distinct by canonical JSON')
ASSUMPTIONS = [
    'patches are applied with an independent RFC 7386 implementation, as the API server would',
    'null-valued keys are equivalent to absent keys and lists are atoms (documented behaviour of kopf diffs)',
    'annotation values are strings, labels are string maps (what the API server enforces)',
    'other operators are Kopf-based and use the stock storages with their own prefix (docs/configuration.rst)',
]
BUDGET = {'quick': 400, 'thorough': 4000}
FUZZ_RUNS = {'thorough': 8000}     # inputs per process of the coverage-guided stage (tools/fuzz.py), 16 processes
MAX_SHARDS = 16

# ------------------------------------------------------------------------------------------ generators
KEYS = st.one_of(st.sampled_from(['a', 'b', 'c', 'f', 'x', 'kopf', 'spec', 'status', 'items', 'ключ', 'k.d', 'k/s', '']),
                 st.text(max_size=4))
SCALARS = st.one_of(st.none(), st.booleans(), st.integers(-5, 5), st.sampled_from(['', 'a', 'yes', 'ü', '0']),
                    st.floats(allow_nan=False, allow_infinity=False, width=16))
JSON = st.recursive(SCALARS, lambda ch: st.one_of(st.lists(ch, max_size=3), st.dictionaries(KEYS, ch, max_size=4)),
                    max_leaves=12)
DICTS = st.dictionaries(KEYS, JSON, max_size=5)
PREFIXES = ['kopf.zalando.org', 'my-op.example.com', 'other.example.org', 'kopf.dev', 'sub.kopf.zalando.org']
HANDLER_IDS = st.sampled_from(['h', 'create_fn', 'update_fn/spec.field', 'a/b', 'on_create/sub1', 'touch-dummy2',
                               'x' * 70, 'very.long/' + 'y' * 80])


@st.composite
def storage_cfg(draw, prefix=None):
    prefix = prefix or draw(st.sampled_from(PREFIXES))
    v1 = draw(st.booleans())
    name = draw(st.sampled_from(['kopf', 'kopf', 'myop']))
    ann_p = {'kind': 'annotations', 'prefix': prefix, 'v1': v1}
    st_p = {'kind': 'status', 'name': name}
    progress = draw(st.sampled_from([{'kind': 'smart', 'prefix': prefix, 'v1': v1, 'name': name}, ann_p, st_p,
                                     {'kind': 'multi', 'storages': [ann_p, st_p]}]))
    ann_d = {'kind': 'annotations', 'prefix': prefix, 'v1': v1}
    st_d = {'kind': 'status', 'name': name}
    diffbase = draw(st.sampled_from([ann_d, ann_d, st_d, {'kind': 'multi', 'storages': [ann_d, st_d]}]))
    return {'progress': progress, 'diffbase': diffbase, 'prefix': prefix}


@st.composite
def bodies(draw):
    anns = {}
    for _ in range(draw(st.integers(0, 4))):
        kind = draw(st.sampled_from(['plain', 'plain', 'kopf', 'other', 'marker', 'kubectl', 'bare']))
        if kind == 'plain':
            anns[draw(st.sampled_from(['example.com/note', 'team', 'a.b/c', 'app.kubernetes.io/name']))] = draw(st.sampled_from(['', 'v', '1']))
        elif kind == 'kopf':
            anns['kopf.zalando.org/' + draw(st.sampled_from(['h', 'last-handled-configuration', 'touch-dummy', 'zzz']))] = draw(st.sampled_from(['{}', 'x', '{"retries":1}']))
        elif kind == 'other':
            # what a stock-storage operator with that prefix leaves behind: its keys AND its marker
            # (the stock storages write the marker together with their first key)
            p = draw(st.sampled_from(PREFIXES[1:]))
            anns[p + '/' + draw(st.sampled_from(['h', 'last-handled-configuration', 'q']))] = draw(st.sampled_from(['{}', 'x']))
            if not p.endswith('kopf.zalando.org'):
                anns[p + '/kopf-managed'] = 'yes'
        elif kind == 'marker':
            anns[draw(st.sampled_from(PREFIXES[1:])) + '/kopf-managed'] = 'yes'
        elif kind == 'kubectl':
            anns['kubectl.kubernetes.io/last-applied-configuration'] = '{"spec":{}}'
        else:
            anns[draw(st.sampled_from(['kopf-managed', 'plainkey']))] = 'yes'
    meta = {'name': 'obj', 'namespace': 'ns', 'uid': 'uid-1', 'resourceVersion': str(draw(st.integers(1, 999))),
            'generation': draw(st.integers(1, 9)), 'creationTimestamp': '2020-01-01T00:00:00Z'}
    if anns or draw(st.booleans()):
        meta['annotations'] = anns
    labels = draw(st.dictionaries(st.sampled_from(['app', 'on', 'tier']), st.sampled_from(['', 'a', 'yes']), max_size=2))
    if labels or draw(st.booleans()):
        meta['labels'] = labels
    if draw(st.booleans()):
        meta['finalizers'] = draw(st.lists(st.sampled_from(['f/a', 'kopf.zalando.org/KopfFinalizerMarker', 'f/b']), max_size=3, unique=True))
    if draw(st.booleans()):
        meta['managedFields'] = [{'manager': 'x', 'time': '2020'}]
    if draw(st.integers(0, 9)) == 0:
        meta['ownerReferences'] = [{'kind': 'Deployment', 'name': 'd', 'uid': 'u'}]
    body = {'apiVersion': 'kopf.dev/v1', 'kind': draw(st.sampled_from(['KopfExample', 'KopfExample', 'ReplicaSet'])), 'metadata': meta}
    if draw(st.integers(0, 9)) > 0:
        body['spec'] = draw(DICTS)
    if draw(st.booleans()):
        status = draw(DICTS)
        if draw(st.booleans()):
            status['kopf'] = draw(st.sampled_from([{}, {'progress': {}}, {'progress': {'h': {'retries': 1}}, 'dummy': 'x'},
                                                    {'last-handled-configuration': '{"spec":{}}'}]))
        body['status'] = status
    for extra in draw(st.lists(st.sampled_from(['data', 'rules', 'subsets']), max_size=2, unique=True)):
        body[extra] = draw(JSON)
    return body


FIELDS = st.sampled_from([None, 'spec', 'spec.a', 'spec.a.b', 'spec.x.f', 'metadata.labels', 'metadata.labels.app',
                          'metadata.annotations', 'status.foreign', 'data', 'spec.items', 'spec.kopf',
                          # (a handler field that covers the place where status-based storages keep the framework's own records)
                          'status.kopf'])

RECORDS = st.fixed_dictionaries({}, optional={
    'started': st.just('2030-01-01T00:00:00.000000+00:00'), 'stopped': st.sampled_from([None, '2030-01-01T00:00:01+00:00']),
    'delayed': st.sampled_from([None, '2030-01-01T00:01:00+00:00']), 'purpose': st.sampled_from([None, 'create', 'update']),
    'retries': st.integers(0, 9), 'success': st.booleans(), 'failure': st.booleans(),
    'message': st.sampled_from([None, '', 'ошибка ü', 'x' * 50]), 'subrefs': st.sampled_from([None, [], ['a/b', 'a/c']])})


@st.composite
def edits(draw):
    """An essential edit: (zone, path, op, value)."""
    zone = draw(st.sampled_from(['spec', 'spec', 'spec', 'labels', 'annotations', 'other']))
    path = draw(st.lists(KEYS, min_size=1, max_size=3))
    op = draw(st.sampled_from(['set', 'set', 'del']))
    val = draw(JSON)
    return {'zone': zone, 'path': path, 'op': op, 'value': val}


@st.composite
def cl_scenarios(draw):
    p1, p2 = draw(st.lists(st.sampled_from(PREFIXES + ['kopf.a', 'kopf.b']), min_size=2, max_size=2, unique=True))
    def op(prefix, n):
        kind = draw(st.sampled_from(['annotations', 'smart']))
        return {'handlers': [{'kind': 'create', 'id': f'c{n}'}, {'kind': 'update', 'id': f'u{n}'}] +
                            ([{'kind': 'delete', 'id': f'd{n}'}] if draw(st.booleans()) else []),
                'progress_storage': {'kind': kind, 'prefix': prefix}, 'diffbase_storage': {'kind': 'annotations', 'prefix': prefix},
                'settings': {'persistence.finalizer': f'{prefix}/fin'}}
    return {'mode': 'cl', 'ops': [op(p1, 1), op(p2, 2)] if draw(st.booleans()) else [op(p1, 1)],
            'edits': draw(st.lists(st.sampled_from(['spec', 'spec', 'status', 'label', 'note']), max_size=4)),
            'gap': draw(st.sampled_from([0.0, 0.5, 10.0]))}


@st.composite
def scenarios(draw):
    pick = draw(st.integers(0, 9))
    if pick == 0:
        return draw(cl_scenarios())
    if pick == 1:
        return draw(kw_scenarios())
    cfg = draw(storage_cfg())
    fields = draw(st.lists(FIELDS, max_size=2))
    if cfg['progress']['kind'] == 'annotations' and cfg['diffbase']['kind'] == 'status' and cfg['diffbase'].get('name') == 'kopf' and draw(st.booleans()):
        fields = (fields + ['status.kopf'])[-2:]      # (the sub-domain in which that field is judged, see run_pure)
    return {'body': draw(bodies()), 'cfg': cfg, 'other': draw(storage_cfg()),
            'hid': draw(HANDLER_IDS), 'record': draw(RECORDS), 'fields': fields,
            'edit': draw(edits()), 'old': draw(st.one_of(st.none(), DICTS)), 'new': draw(st.one_of(st.none(), DICTS)),
            'reduce': draw(st.lists(KEYS, max_size=3)), 'result': draw(st.one_of(st.none(), SCALARS, DICTS)),
            'sysedit': draw(st.sampled_from(['resourceVersion', 'generation', 'managedFields', 'status', 'status.deep', 'finalizers', 'deletionTimestamp', 'ownerReferences', 'kubectl'])),
            'writes': draw(st.lists(st.sampled_from(['store', 'purge', 'touch', 'untouch', 'diffbase', 'fin+', 'fin-', 'result',
                                                     'o:store', 'o:purge', 'o:touch', 'o:diffbase']), min_size=1, max_size=5))}


# ------------------------------------------------------------------------------------------ helpers
def _depth(v):
    if isinstance(v, dict):
        return 1 + max([_depth(x) for x in v.values()] or [0])
    if isinstance(v, list):
        return 1 + max([_depth(x) for x in v] or [0])
    return 0


def _has(v, pred):
    if pred(v):
        return True
    if isinstance(v, dict):
        return any(_has(x, pred) for x in v.values())
    if isinstance(v, list):
        return any(_has(x, pred) for x in v)
    return False


def norm(v):
    """null ≡ absent inside mappings; lists are atoms."""
    if isinstance(v, dict):
        return {k: norm(x) for k, x in v.items() if x is not None}
    return v


def apply_diff(old, diff):
    """Independent applier of kopf diff items to a JSON value."""
    cur = copy.deepcopy(old)
    for op, path, o, n in diff:
        path = tuple(path)
        if not path:
            cur = copy.deepcopy(n) if str(op) != 'remove' else None
            continue
        if not isinstance(cur, dict):
            cur = {}
        d = cur
        for key in path[:-1]:
            if not isinstance(d.get(key), dict):
                d[key] = {}
            d = d[key]
        if str(op) == 'remove':
            d.pop(path[-1], None)
        else:
            d[path[-1]] = copy.deepcopy(n)
    return cur


def resolve(d, path):
    cur = d
    for key in path:
        if not isinstance(cur, dict) or key not in cur:
            return None
        cur = cur[key]
    return cur


def make_storages(cfg):
    from kopfsim.opspec import make_diffbase_storage, make_progress_storage
    return make_progress_storage(cfg['progress']), make_diffbase_storage(cfg['diffbase'])


def essence_of(body, progress, diffbase, fields):
    from kopf._cogs.structs import bodies as kbodies
    ess = diffbase.build(body=kbodies.Body(copy.deepcopy(body)), extra_fields=[f for f in fields if f])
    return progress.clear(essence=ess)


def framework_write(kind, body, own, other, sc):
    """Perform one framework write through kopf's own code; returns the patched body (server side)."""
    from kopf._cogs.structs import bodies as kbodies, finalizers, patches
    from kopf._core.actions import execution, progression
    progress, diffbase = other if kind.startswith('o:') else own
    kind = kind.split(':')[-1]
    kbody = kbodies.Body(copy.deepcopy(body))
    patch = patches.Patch()
    if kind == 'store':
        progress.store(key=sc['hid'], record=dict(sc['record']), body=kbody, patch=patch)
        progress.flush()
    elif kind == 'purge':
        progress.purge(key=sc['hid'], body=kbody, patch=patch)
        progress.flush()
    elif kind == 'touch':
        progress.touch(body=kbody, patch=patch, value='2030-01-01T00:00:00+00:00')
    elif kind == 'untouch':
        progress.touch(body=kbody, patch=patch, value=None)
    elif kind == 'diffbase':
        ess = diffbase.build(body=kbody, extra_fields=[f for f in sc['fields'] if f])
        ess = progress.clear(essence=ess)
        diffbase.store(body=kbody, patch=patch, essence=ess)
    elif kind == 'result':
        if sc['result'] is None:
            return body
        outcome = execution.Outcome(final=True, result=sc['result'])
        progression.deliver_results(outcomes={sc['hid'].split('/')[0]: outcome}, patch=patch)
    elif kind in ('fin+', 'fin-'):
        raw = copy.deepcopy(body)
        fn = finalizers.block_deletion if kind == 'fin+' else finalizers.allow_deletion
        fn(raw, finalizer='kopf.zalando.org/KopfFinalizerMarker')
        raw.setdefault('metadata', {})
        return raw
    new = rfc.merge_patch(body, json.loads(json.dumps(dict(patch))))
    meta = new.setdefault('metadata', {})
    for f in ('annotations', 'labels', 'finalizers'):
        if f in meta and not meta[f]:
            del meta[f]     # the API server drops empty maps/lists there
    return new


def apply_edit(body, e):
    new = copy.deepcopy(body)
    if e['zone'] == 'spec':
        root = new.setdefault('spec', {})
    elif e['zone'] == 'labels':
        root = new['metadata'].setdefault('labels', {})
    elif e['zone'] == 'annotations':
        root = new['metadata'].setdefault('annotations', {})
    else:
        root = new.setdefault('data', {})
        if not isinstance(root, dict):
            new['data'] = root = {}
    if e['zone'] in ('labels', 'annotations'):
        key = 'example.com/' + (e['path'][0] or 'k') if e['zone'] == 'annotations' else (e['path'][0] or 'k')
        if e['op'] == 'del':
            root.pop(key, None)
        else:
            root[key] = json.dumps(e['value'])[:20]
        return new
    d = root
    for key in e['path'][:-1]:
        if not isinstance(d.get(key), dict):
            d[key] = {}
        d = d[key]
    if e['op'] == 'del':
        d.pop(e['path'][-1], None)
    else:
        d[e['path'][-1]] = copy.deepcopy(e['value'])
    return new


def essential_view(body):
    """Independent: what counts as essential (spec & other payload, labels, ordinary annotations), null≡absent."""
    out = {k: v for k, v in body.items() if k not in ('metadata', 'status', 'apiVersion', 'kind')}
    meta = body.get('metadata') or {}
    out['@labels'] = dict(meta.get('labels') or {})
    out['@annotations'] = {k: v for k, v in (meta.get('annotations') or {}).items() if k.startswith('example.com/')}
    return norm(out)


# ------------------------------------------------------------------------------------------ the case
def run_cl_case(sc):
    """P5: with no external edits handling never re-triggers itself, alone or next to another Kopf operator."""
    from kopfsim.sim import KEX, Sim
    res = CaseResult()
    sim = Sim(seed=1)
    try:
        for i, spec in enumerate(sc['ops']):
            sim.start(f'OP{i + 1}', spec)
        sim.run_for(1.0)
        sim.cluster.create(KEX, 'default', 'o', {'spec': {'f': 0}})
        sim.run_for(10.0)
        essential = 0
        for n, e in enumerate(sc['edits']):
            if e == 'spec':
                sim.cluster.edit(KEX, 'default', 'o', lambda b: b['spec'].update(f=n + 1)); essential += 1
            elif e == 'status':
                sim.cluster.edit(KEX, 'default', 'o', lambda b: b.setdefault('status', {}).update(x=n))
            elif e == 'label':
                sim.cluster.edit(KEX, 'default', 'o', lambda b: b['metadata'].setdefault('labels', {}).update(l=str(n))); essential += 1
            else:
                sim.cluster.edit(KEX, 'default', 'o', lambda b: b['metadata'].setdefault('annotations', {}).update({'example.com/note': str(n)})); essential += 1
            sim.run_for(sc['gap'])
        sim.run_for(60.0)
        t_quiet = sim.world.now
        sim.run_for(120.0)
        for i in range(len(sc['ops'])):
            name = f'OP{i + 1}'
            ups = [c for c in sim.trace if c['inc'] == name and c['kind'] == 'update']
            crs = [c for c in sim.trace if c['inc'] == name and c['kind'] == 'create']
            if len(ups) > essential:
                res.fail('C04/P5-self-or-cross-triggered',
                         f'{name} (prefix {sc["ops"][i]["diffbase_storage"]["prefix"]}) ran its update handler {len(ups)} times for {essential} external essential edits; '
                         f'prefixes in play: {[o["diffbase_storage"]["prefix"] for o in sc["ops"]]}; diffs: {[c.get("diff") for c in ups][:3]}')
            if len(crs) != 1:
                res.fail('C04/P5-create-count', f'{name} ran its create handler {len(crs)} times for one object')
        late = [r for r in sim.cluster.requests if r['t'] >= t_quiet and 'patch' in r['classes']]
        if late:
            res.fail('C04/P5-never-quiet', f'{len(late)} operator writes in the last 120 s without any external change, e.g. {late[0]["client"]} {late[0]["payload"]}')
        res.nontrivial = len(sc['ops']) == 2 and essential >= 1
        res.label('closed-loop', f'cl-ops:{len(sc["ops"])}')
        res.summary = {'updates': len([c for c in sim.trace if c['kind'] == 'update']), 'essential_edits': essential}
    finally:
        sim.close()
    return res


# ------------------------------------------------------------------------------------------ P6: the kwargs in the closed loop
KW_FIELDS = [None, None, 'spec', 'spec.f', 'spec.g', 'spec.n.k', 'metadata.labels', 'metadata.labels.on', 'metadata.annotations']


@st.composite
def kw_scenarios(draw):
    """Handlers of every change kind, whole-object or narrowed to a field, over histories with restarts and deletions: the
    old/new/diff they are given are compared with the independently read last-handled state and current essence."""
    from props import closedloop as cl
    handlers = []
    kinds = draw(st.lists(st.sampled_from(['create', 'update', 'delete', 'resume', 'resume', 'delete', 'update']), min_size=2, max_size=5))
    for i, kind in enumerate(kinds):
        h = {'kind': kind, 'id': f'{kind[0]}{i}', 'script': [], 'duration': 0}
        f = draw(st.sampled_from(KW_FIELDS))
        if f:
            h['field'] = f
        if kind == 'resume' and draw(st.booleans()):
            h['deleted'] = True
        handlers.append(h)
    progress, diffbase = draw(cl.storage_cfgs())
    dts = st.sampled_from([0.0, 0.5, 2.0, 10.0])
    objs = st.integers(0, 1)
    vals = st.one_of(st.none(), st.integers(0, 3), st.sampled_from([{}, {'k': 1}, {'k': 2, 'z': None}, [1], 'x']))
    act = st.one_of(
        st.builds(lambda o, v, dt: {'a': 'create', 'obj': o, 'v': v, 'dt': dt}, objs, st.integers(0, 3), dts),
        st.builds(lambda o, v, dt: {'a': 'edit_spec', 'obj': o, 'v': v, 'dt': dt}, objs, st.integers(0, 3), dts),
        st.builds(lambda o, p, v, dt: {'a': 'edit_field', 'obj': o, 'path': p, 'v': v, 'dt': dt}, objs,
                  st.sampled_from([['spec', 'g'], ['spec', 'n'], ['spec', 'n', 'k'], ['spec', 'f'], ['other'], ['status', 's']]), vals, dts),
        st.builds(lambda o, v, dt: {'a': 'label', 'obj': o, 'v': v, 'dt': dt}, objs, st.sampled_from(['yes', 'no', None]), dts),
        st.builds(lambda o, v, dt: {'a': 'annotate', 'obj': o, 'v': v, 'dt': dt}, objs, st.integers(0, 3), dts),
        st.builds(lambda o, dt: {'a': 'delete', 'obj': o, 'dt': dt}, objs, dts),
        st.builds(lambda dt, how: {'a': 'restart', 'how': how, 'down': dt, 'dt': 0.0}, dts, st.sampled_from(['stop', 'kill'])),
        st.builds(lambda dt: {'a': 'compact', 'dt': dt}, dts),
    )
    actions = [{'a': 'create', 'obj': 0, 'v': 1, 'dt': 1.0}] + draw(st.lists(act, min_size=2, max_size=12))
    return {'mode': 'kw', 'seed': draw(st.integers(0, 9999)),
            'spec': {'handlers': handlers, 'lifecycle': 'all_at_once', 'progress_storage': progress, 'diffbase_storage': diffbase,
                     'settings': {'persistence.consistency_timeout': 1.0, 'watching.reconnect_backoff': 0.1}},
            'cluster': {'status_sub': draw(st.booleans())}, 'actions': actions}


def run_kw_case(sc):
    from props import closedloop as cl
    from kopfsim.world import Livelock
    res = CaseResult()
    run = cl.Run(sc)
    try:
        try:
            run.run()
            run.quiesce(60.0)
        except Livelock as e:
            res.fail('C04/P6-livelock', str(e))
        spec = sc['spec']
        prefixes = cl.storage_prefixes(spec.get('progress_storage'), spec.get('diffbase_storage'))
        handlers = {h['id']: h for h in spec['handlers']}
        narrowed_on_empty_diff = narrowed = 0
        for c in run.sim.trace:
            if c.get('k') != 'call' or c['hid'] not in handlers or c['kind'] not in ('create', 'update', 'delete', 'resume'):
                continue
            h = handlers[c['hid']]
            view = c['view']
            e_new = norm(cl.essence(view, prefixes))
            stored = cl.read_last_handled(view, spec.get('diffbase_storage'))
            e_old = norm(stored) if stored is not None else None
            path = h['field'].split('.') if h.get('field') else []
            want_old = norm(resolve(e_old, path)) if e_old is not None else None
            want_new = norm(resolve(e_new, path))
            if want_old == {} and path:
                want_old = resolve(e_old, path)
            got_old, got_new = norm(c.get('old')), norm(c.get('new'))
            where = f'{c["hid"]} ({c["kind"]}, field={h.get("field")}, reason={c["reason"]}) on {c["name"]} rv={c["rv"]}'
            if not _same(got_new, want_new):
                res.fail('C04/P6-new', f'{where}: new={c.get("new")!r}, but the essence of the object it was given' + (f' at {h["field"]}' if path else '') + f' is {want_new!r}')
            if not _same(got_old, want_old):
                res.fail('C04/P6-old', f'{where}: old={c.get("old")!r}, but the last-handled state stored on the object it was given' + (f' at {h["field"]}' if path else '') + f' is {want_old!r}')
            diff = c.get('diff') or []
            if not _same(norm(apply_diff(c.get('old'), diff)), got_new):
                res.fail('C04/P6-diff-unsound', f'{where}: applying diff {diff} to old={c.get("old")!r} gives {apply_diff(c.get("old"), diff)!r}, not new={c.get("new")!r}')
            if (not diff) != (got_old == got_new):
                res.fail('C04/P6-diff-empty', f'{where}: diff={diff} with old={c.get("old")!r} new={c.get("new")!r}')
            if path:
                narrowed += 1
                if _same(e_old, e_new):
                    narrowed_on_empty_diff += 1
        res.label('kw-closed-loop')
        if narrowed:
            res.label('kw:field-handler-invoked')
        if narrowed_on_empty_diff:
            res.label('kw:field-handler-on-unchanged-object')
        res.nontrivial = narrowed > 0
        res.summary = cl.summarize(run, max_calls=15)
    finally:
        run.close()
    return res


def _same(a, b):
    """Equality modulo null == absent and empty mapping == absent (what the property calls 'nothing essential differs')."""
    def strip(v):
        if isinstance(v, dict):
            out = {k: strip(x) for k, x in v.items() if x is not None}
            return {k: x for k, x in out.items() if x != {}}
        return v
    a, b = strip(a), strip(b)
    if a == {}:
        a = None
    if b == {}:
        b = None
    return a == b


def run_case(sc):
    if sc.get('mode') == 'cl':
        return run_cl_case(sc)
    if sc.get('mode') == 'kw':
        return run_kw_case(sc)
    from kopf._cogs.structs import diffs
    res = CaseResult()
    body = sc['body']
    own = make_storages(sc['cfg'])
    other_cfg = sc['other']
    if other_cfg['prefix'] == sc['cfg']['prefix']:
        other_cfg = None
    other = make_storages(other_cfg) if other_cfg else own
    # (a handler field may name all annotations: the framework's own ones stay invisible all the same; a handler that asks for the
    # whole status stanza asks for the handlers' results in it too, which is why that one is not generated)
    fields = [f for f in sc['fields'] if f and f != 'status']
    # A field that covers the framework's own corner of the status stanza is judged only where nothing but the last-handled state
    # is kept there by this operator (annotation-based progress, status-based diff-base), and only for this operator's own writes:
    # with status-based progress the touch marker lives there too, and other operators' records there are theirs to show.
    own_corner = 'status.kopf' in fields
    if own_corner and not (sc['cfg']['progress']['kind'] == 'annotations' and sc['cfg']['diffbase']['kind'] == 'status'
                           and sc['cfg']['diffbase'].get('name', 'kopf') == 'kopf'
                           and isinstance((body.get('status') or {}).get('kopf', {}), dict) and isinstance(body.get('status') or {}, dict)):
        fields = [f for f in fields if f != 'status.kopf']
        own_corner = False
    if own_corner:
        sc = dict(sc, writes=[w for w in sc['writes'] if not w.startswith('o:')], sysedit='resourceVersion' if str(sc.get('sysedit', '')).startswith('status') else sc.get('sysedit'))
        res.label('handler-field-covers-the-status-diffbase')
    sc = dict(sc, fields=fields)
    try:
        base = essence_of(body, *own, fields)
    except Exception as e:
        res.fail('C04/essence-raises', f'essence of a well-formed body raised {type(e).__name__}: {e}')
        return res

    # P1: framework writes (own and another Kopf operator's) are invisible.
    cur = body
    for w in sc['writes']:
        if w.startswith('o:') and other_cfg is None:
            continue
        try:
            cur = framework_write(w, cur, own, other, sc)
            now = essence_of(cur, *own, fields)
        except Exception as e:
            res.fail('C04/P1-write-raises', f'framework write {w} raised {type(e).__name__}: {e}')
            break
        if norm(now) != norm(base):
            who = f'another Kopf operator (prefix {other_cfg["prefix"]})' if w.startswith('o:') else 'this operator'
            res.fail('C04/P1-own-write-visible:' + w.split(':')[-1] + (':other' if w.startswith('o:') else ''),
                     f'the framework write {w!r} of {who} changes the essence seen by the operator with prefix '
                     f'{sc["cfg"]["prefix"]}: diff={list(diffs.diff(base, now))[:4]}')
            break

    # P2: status and system metadata never count.
    sysb = copy.deepcopy(body)
    se = sc['sysedit']
    if se == 'status':
        sysb['status'] = dict({k: v for k, v in (sysb.get('status') or {}).items() if k == 'foreign'}, x={'y': None}, zz=1)
    elif se == 'kubectl' and any(f.startswith('metadata.annotations') for f in fields):
        pass    # (a handler that names all annotations as its field gets kubectl's one too: it is nobody's own write nor system metadata)
    elif se == 'kubectl':
        sysb['metadata'].setdefault('annotations', {})['kubectl.kubernetes.io/last-applied-configuration'] = '{"spec":{"changed":true}}'
    elif se == 'status.deep':
        sysb.setdefault('status', {})
        if isinstance(sysb['status'], dict):
            sysb['status']['zz'] = {'deep': [1, 2]}
    elif se == 'finalizers':
        sysb['metadata']['finalizers'] = ['kopf.zalando.org/KopfFinalizerMarker', 'z/z']
    elif se == 'deletionTimestamp':
        sysb['metadata']['deletionTimestamp'] = '2030-01-01T00:00:00Z'
    elif se == 'managedFields':
        sysb['metadata']['managedFields'] = [{'manager': 'y'}]
    elif se == 'ownerReferences':
        if body.get('kind') != 'ReplicaSet':      # (it would change the key marking, by design)
            sysb['metadata']['ownerReferences'] = [{'kind': 'Job', 'name': 'j', 'uid': 'u2'}]
    else:
        sysb['metadata'][se] = '777' if se == 'resourceVersion' else 777
    try:
        if norm(essence_of(sysb, *own, fields)) != norm(base):
            res.fail('C04/P2-system-field-visible:' + se, f'an edit of {se} changes the essence: {list(diffs.diff(base, essence_of(sysb, *own, fields)))[:4]}')
    except Exception as e:
        res.fail('C04/P2-raises', f'{type(e).__name__}: {e}')

    # P3: any essential edit is seen.
    edited = apply_edit(body, sc['edit'])
    differs = essential_view(edited) != essential_view(body)
    try:
        e2 = essence_of(edited, *own, fields)
        d = diffs.diff(base, e2)
        if differs and not d:
            res.fail('C04/P3-essential-change-missed', f'edit {sc["edit"]} changes essential content but the diff is empty')
        if not differs and d:
            res.fail('C04/P3-phantom-change', f'edit {sc["edit"]} changes nothing essential (modulo null=absent) but diff={list(d)[:4]}')
    except Exception as e:
        res.fail('C04/P3-raises', f'{type(e).__name__}: {e}')

    # P4: diffs are exact, whole and reduced to a field.
    for old, new in ((sc['old'], sc['new']), (base, essence_of(edited, *own, fields))):
        try:
            d = diffs.diff(old, new)
        except Exception as e:
            res.fail('C04/P4-diff-raises', f'{type(e).__name__}: {e}')
            continue
        if norm(apply_diff(old, d)) != norm(new) and not (new is None and norm(apply_diff(old, d)) in (None, {})):
            res.fail('C04/P4-apply-diff', f'applying diff {list(d)[:5]} to {old!r} gives {apply_diff(old, d)!r}, not {new!r}')
        if (not d) != (norm(old) == norm(new)):
            res.fail('C04/P4-empty-iff-equal', f'diff({old!r},{new!r}) = {list(d)[:5]}')
        path = tuple(sc['reduce'])
        try:
            rd = diffs.reduce(d, path)
        except Exception as e:
            res.fail('C04/P4-reduce-raises', f'reduce({list(d)[:4]}, {path}) raised {type(e).__name__}: {e}')
            continue
        o_f, n_f = resolve(old, path), resolve(new, path)
        got = apply_diff(o_f, rd)
        if norm(got) != norm(n_f) and not (n_f is None and norm(got) in (None, {})):
            res.fail('C04/P4-reduced-diff', f'field {path}: old={o_f!r} new={n_f!r} reduced diff={list(rd)[:5]} applies to {got!r}')
        if (not rd) != (norm(o_f) == norm(n_f)):
            res.fail('C04/P4-reduced-empty-iff-equal', f'field {path}: old={o_f!r} new={n_f!r} reduced diff={list(rd)[:5]}')

    anns = (body['metadata'].get('annotations') or {})
    kopf_owned = any(k.startswith(sc['cfg']['prefix'] + '/') for k in anns) or 'kopf' in (body.get('status') or {})
    tricky = (_has(body.get('spec'), lambda v: v is None) or _has(body.get('spec'), lambda v: v in ({}, []))
              or any(k.split('/')[0] in PREFIXES and k.split('/')[0] != sc['cfg']['prefix'] for k in anns))
    res.nontrivial = _depth(body.get('spec')) >= 2 and kopf_owned and tricky
    res.label('progress:' + sc['cfg']['progress']['kind'], 'diffbase:' + sc['cfg']['diffbase']['kind'])
    if other_cfg:
        res.label('two-operators')
    if res.nontrivial:
        res.label('nontrivial')
    res.summary = {'essence': base}
    return res


def run_shard(ctx):
    n = ctx['examples'] or BUDGET[ctx['tier']]
    return explore(scenarios(), run_case, seed=ctx['seed'], max_examples=n, tier=ctx['tier'],
                   known_ids=ctx['known_ids'], shrink_keys=('writes',))
