"""C12 — Infrastructure errors are retried, then contained per object, never fatal."""
import asyncio
import logging

from hypothesis import strategies as st

import kopf
from kopf._cogs.clients import api, auth
from kopf._cogs.structs import credentials
from kopf._core.engines import activities, indexing
from kopf._core.intents import registries

from kopfsim.cluster import Fault, FakeSession
from kopfsim.sim import KEX, Sim
from kopfsim.world import Livelock
from props import c02, closedloop as cl
from runner.pbt import CaseResult, explore

ID = 'C12'
LEVEL = 'exploration'
RULE = ('three generated families. (A) client level, exact virtual time: 1-4 concurrent requests through kopf\'s API client (api.patch/api.get with '
        'the real credentials vault and the real re-authentication task) against per-request scripts of faults (5xx, 403, 429 with Retry-After '
        'header/details, other 4xx, 401, connection errors, disconnects, client timeouts), server-side revocation of a session at a generated '
        'instant, backoff configurations (empty, scalar, tuple, list, re-iterable without len), enforce_retry_after, login delays and a login '
        'that returns the invalidated credentials again; oracle = the documented retry policy evaluated on the server\'s request log and on '
        'what each caller got. (B) operator level: closed-loop histories where one object\'s PATCHes fail in bursts under generated '
        'error_backoffs/error_delays while other objects keep changing; oracle = containment and recovery invariants (operator alive, other '
        'objects handled on time, the failing object silent for the configured delay growing per consecutive error and reset by a success, '
        'convergence after the faults stop and the object changes again). (C) unexpected errors inside the processing of one object: its '
        'persisted last-handled state is damaged (no JSON any more) and repaired at generated instants, so that every cycle on a damaged '
        'view raises before any handler runs (the index function is the witness of each attempted cycle); same containment, growth/reset '
        'and recovery invariants. Non-trivial: (A) a request that escalates after retries, a '
        'Retry-After larger than the backoff, or >=2 requests blocked by one 401; (B) an escalation followed by recovery; (C) a failed cycle followed by recovery')
ASSUMPTIONS = [
    'Retry-After is given in whole seconds (header) or details.retryAfterSeconds (body), as Kubernetes sends it',
    'backoff configurations are re-iterable (one-shot generators are outside the documented domain)',
    'login handlers succeed (a failing login is C20\'s fail-fast matter); they return either fresh credentials or the very same ones',
    '(B) bounded liveness: recovery is demanded within the sum of configured delays + 30 s after the probe edit',
]
BUDGET = {'quick': 140, 'thorough': 1500}
TOL = 1e-6

PATH = '/apis/kopf.dev/v1/namespaces/default/kopfexamples/'


class ReIterable:
    """Re-iterable, but neither Sized nor a sequence."""
    def __init__(self, items):
        self.items = list(items)

    def __iter__(self):
        return iter(list(self.items))


def decode_backoffs(cfg):
    if isinstance(cfg, dict):
        return ReIterable(cfg['reiter'])
    if isinstance(cfg, list) and cfg and cfg[0] == 'tuple':
        return tuple(cfg[1])
    return cfg


def backoff_list(cfg):
    if isinstance(cfg, dict):
        return list(cfg['reiter'])
    if isinstance(cfg, list) and cfg and cfg[0] == 'tuple':
        return list(cfg[1])
    if isinstance(cfg, list):
        return list(cfg)
    return [cfg]


# ------------------------------------------------------------------------------------------ (A) generator
OUTCOMES = ['ok', 500, 502, 503, 403, 429, 429, 429, 429, 404, 409, 422, 400, 401, 'conn', 'disconnected', 'oserror', 'slow']


@st.composite
def client_scenarios(draw):
    backoffs = draw(st.sampled_from([[], 0, 0.5, ['tuple', [1, 2]], [0.1, 0.1, 0.1], {'reiter': [1, 1]}, ['tuple', [0, 0]], ['tuple', [3]],
                                     ['tuple', [1, 1, 2, 3]]]))
    n = len(backoff_list(backoffs))
    k = draw(st.integers(1, 4))
    reqs = []
    for i in range(k):
        length = draw(st.integers(0, n + 2))
        script = []
        for _ in range(length):
            o = draw(st.sampled_from(OUTCOMES))
            step = {'o': o}
            if o == 429:
                how = draw(st.sampled_from(['none', 'header', 'header', 'details']))
                if how != 'none':
                    step['ra_' + how] = draw(st.sampled_from([0, 1, 2, 5]))
            script.append(step)
        reqs.append({'method': draw(st.sampled_from(['patch', 'patch', 'get'])), 'start': draw(st.sampled_from([0.0, 0.0, 0.0, 0.5, 2.0])),
                     'script': script})
    logins = draw(st.lists(st.sampled_from(['new', 'new', 'new', 'same']), min_size=0, max_size=3))
    return {'mode': 'client', 'seed': draw(st.integers(0, 999)), 'backoffs': backoffs, 'enforce': draw(st.booleans()),
            'request_timeout': 4.0, 'requests': reqs, 'logins': logins, 'login_delay': draw(st.sampled_from([0.0, 0.0, 1.5])),
            'revoke_at': draw(st.sampled_from([None, None, 0.0, 0.25, 1.0, 2.5])), 'latency': draw(st.sampled_from([0.0, 0.0, 0.1, 0.7]))}


# ------------------------------------------------------------------------------------------ (A) execution
def run_client(sc):
    sim = Sim(seed=sc.get('seed', 0))
    cluster = sim.cluster
    loop = sim.world.spawn('client')
    log = logging.getLogger('c12')
    settings = kopf.OperatorSettings()
    settings.networking.error_backoffs = decode_backoffs(sc['backoffs'])
    settings.networking.enforce_retry_after = sc['enforce']
    settings.networking.request_timeout = sc['request_timeout']
    registry = registries.OperatorRegistry()
    logins = []       # dict(t0, t1, sid, mode)
    sessions = []
    plan = list(sc.get('logins') or [])

    @kopf.on.login(registry=registry, id='login')
    async def login(**_):
        n = len(logins)
        mode = 'new' if n == 0 or n - 1 >= len(plan) else plan[n - 1]
        rec = {'t0': sim.world.now, 't1': None, 'mode': mode, 'sid': None}
        logins.append(rec)
        if sc.get('login_delay'):
            await asyncio.sleep(sc['login_delay'])
        if mode == 'same' and sessions:
            session = FakeSession(cluster, client_id='client', token=sessions[-1].token)    # a new connection with the very same credentials
        else:
            session = FakeSession(cluster, client_id='client')
        sessions.append(session)
        rec['sid'] = session.sid
        rec['t1'] = sim.world.now
        return kopf.AiohttpSession(server='http://fake', aiohttp_session=session)

    for i, r in enumerate(sc['requests']):
        cluster.create(KEX, 'default', f'o{i}', {'spec': {'n': 0}})
        for j, step in enumerate(r['script']):
            o = step['o']
            base = {'on': 'any', 'name': f'o{i}', 'nth': j, 'count': 1}
            if o == 'ok':
                continue
            if o == 'slow':
                cluster.faults.append(Fault(dict(base, do='latency', dt=sc['request_timeout'] + 1.0)))
            elif isinstance(o, int):
                cluster.faults.append(Fault(dict(base, do='status', code=o, retry_after_header=step.get('ra_header'), retry_after_details=step.get('ra_details'))))
            else:
                cluster.faults.append(Fault(dict(base, do='exc', exc=o)))
    if sc.get('latency'):
        cluster.api_latency = lambda req: sc['latency']
    if sc.get('revoke_at') is not None:
        sim.world.at(sc['revoke_at'], lambda: cluster.revoked.update(s.token for s in sessions))
    results = {}

    async def one(i, r):
        await asyncio.sleep(r['start'])
        t0 = sim.world.now
        try:
            if r['method'] == 'patch':
                got = await api.patch(PATH + f'o{i}', payload={'spec': {'n': i + 1}}, headers={'Content-Type': 'application/merge-patch+json'},
                                      settings=settings, logger=log)
            else:
                got = await api.get(PATH + f'o{i}', settings=settings, logger=log)
            results[i] = {'t0': t0, 't1': sim.world.now, 'r': 'ok', 'n': (got.get('spec') or {}).get('n')}
        except asyncio.CancelledError:
            results[i] = {'t0': t0, 't1': sim.world.now, 'r': 'cancelled'}
            raise
        except BaseException as e:
            results[i] = {'t0': t0, 't1': sim.world.now, 'r': 'exc', 'type': type(e).__name__, 'status': getattr(e, 'status', None),
                          'mro': [c.__name__ for c in type(e).__mro__]}

    async def main():
        vault = credentials.Vault()
        auth.vault_var.set(vault)
        authenticator = asyncio.create_task(activities.authenticator(
            registry=registry, settings=settings, indices=indexing.OperatorIndexers().indices, vault=vault, memo=kopf.Memo()))
        tasks = [asyncio.create_task(one(i, r)) for i, r in enumerate(sc['requests'])]
        await asyncio.wait(tasks)
        authenticator.cancel()
        await asyncio.wait([authenticator])
        await vault.close()

    task = loop.create_task(main())
    hung = False
    try:
        sim.world.run(600.0)
        hung = not task.done()
        crashed = repr(task.exception()) if task.done() and not task.cancelled() and task.exception() else None
        reqlog = [dict(r) for r in cluster.requests]
        return {'results': results, 'requests': reqlog, 'logins': logins, 'hung': hung, 'crashed': crashed, 't_end': sim.world.now}
    finally:
        sim.close()


def classify(outcome):
    if isinstance(outcome, str) and outcome.endswith('+session-closed'):
        return 'transient'       # the client saw a broken connection, whatever the server answered
    if outcome == 'client-timeout' or (isinstance(outcome, str) and outcome.startswith('exc:')):
        return 'transient'
    if isinstance(outcome, int):
        if outcome < 300:
            return 'ok'
        if outcome == 401:
            return 'unauthorized'
        if outcome >= 500 or outcome in (403, 429):
            return 'transient'
        return 'fatal'
    return 'unknown:' + repr(outcome)


EXC_OF = {'exc:conn': 'ClientConnectionError', 'exc:disconnected': 'ServerDisconnectedError', 'exc:oserror': 'ClientOSError',
          'client-timeout': 'TimeoutError'}


def check_client(sc, out, res):
    backoffs = backoff_list(sc['backoffs'])
    if out['crashed']:
        res.fail('C12/client-crashed', out['crashed'])
    if out['hung']:
        res.fail('C12/request-never-returned', f'callers still blocked at t={out["t_end"]}: {[i for i in range(len(sc["requests"])) if i not in out["results"]]}')
    logins = out['logins']
    login_of_sid = {}
    for l in logins:
        if l['sid'] is not None:
            login_of_sid.setdefault(l['sid'], l)
    first401 = {}     # sid -> t_done of its first 401
    token401 = {}     # token -> t_done of its first 401
    for r in out['requests']:
        if r['outcome'] == 401:      # (a 401 that the client never saw because its session was closed meanwhile is not one)
            first401.setdefault(r['sid'], r['t_done'])
            token401.setdefault(r['token'], r['t_done'])
    escalated = ra_larger = False
    same_seen = any(l['mode'] == 'same' and l['t1'] is not None for l in logins)
    for i, rq in enumerate(sc['requests']):
        attempts = [r for r in out['requests'] if r['name'] == f'o{i}']
        got = out['results'].get(i)
        n = 0                 # consecutive transient failures since the start or the last re-authentication
        for j, a in enumerate(attempts):
            kind = classify(a['outcome'])
            nxt = attempts[j + 1] if j + 1 < len(attempts) else None
            if a['token'] in token401 and a['t'] > token401[a['token']] + TOL:
                res.fail('C12/invalidated-credentials-reused', f'request #{j} for o{i} reached the server at t={a["t"]} on session {a["sid"]} with credentials {a["token"]}, '
                         f'which were answered 401 at t={token401[a["token"]]}')
            if kind == 'ok':
                if nxt is not None:
                    res.fail('C12/retried-after-success', f'o{i}: attempt #{j} succeeded at t={a["t_done"]}, yet one more request came at t={nxt["t"]}')
                if got is None or got['r'] != 'ok':
                    res.fail('C12/success-not-returned', f'o{i}: attempt #{j} succeeded but the caller got {got}')
                break
            if kind == 'fatal':
                if nxt is not None:
                    res.fail('C12/fatal-4xx-retried', f'o{i}: attempt #{j} got {a["outcome"]} at t={a["t_done"]}, yet it was retried at t={nxt["t"]}')
                if got is None or got['r'] != 'exc' or got.get('status') != a['outcome']:
                    res.fail('C12/error-not-escalated', f'o{i}: attempt #{j} got {a["outcome"]} but the caller got {got}')
                break
            if kind == 'unauthorized':
                n = 0
                if nxt is None:
                    # legitimate only if the re-login did not bring usable credentials
                    if got is None or got['r'] != 'exc' or got['type'] != 'LoginError':
                        if not out['hung']:
                            res.fail('C12/no-retry-after-reauth', f'o{i}: attempt #{j} got 401 at t={a["t_done"]} and was never retried; the caller got {got}')
                    elif not same_seen:
                        res.fail('C12/login-error-with-fresh-credentials', f'o{i}: the caller got LoginError though every login returned fresh credentials')
                else:
                    if nxt['sid'] == a['sid']:
                        res.fail('C12/invalidated-credentials-reused', f'o{i}: after a 401 at t={a["t_done"]} on session {a["sid"]} the retry at t={nxt["t"]} used the same session')
                    l = login_of_sid.get(nxt['sid'])
                    if l is None or l['t1'] is None or l['t1'] > nxt['t'] + TOL:
                        res.fail('C12/retry-before-reauth', f'o{i}: retry at t={nxt["t"]} on session {nxt["sid"]} before its login finished')
                continue
            if kind != 'transient':
                res.fail('C12/harness', f'unclassified outcome {a["outcome"]}')
                break
            n += 1
            if n > len(backoffs):
                escalated = escalated or len(backoffs) > 0
                if nxt is not None and not (a['sid'] in first401):
                    res.fail('C12/too-many-attempts', f'o{i}: {n} consecutive transient failures with backoffs {backoffs} (=> {len(backoffs) + 1} attempts at most), '
                             f'yet one more attempt at t={nxt["t"]}')
                if nxt is None:
                    want = EXC_OF.get(a['outcome']) if not str(a['outcome']).endswith('+session-closed') else 'ClientConnectionError'
                    ok = got is not None and got['r'] == 'exc' and ((got.get('status') == a['outcome'] if isinstance(a['outcome'], int) else want in got.get('mro', [])))
                    if not ok and not out['hung']:
                        res.fail('C12/error-not-escalated', f'o{i}: the last attempt #{j} got {a["outcome"]} but the caller got {got}')
                    break
                # a session closed under the request: the cycle restarts with the new credentials
                n = 0
                continue
            wait = backoffs[n - 1]
            wait_hi = wait
            if a['outcome'] == 429:
                step = rq['script'][j] if j < len(rq['script']) else {}
                ra = step.get('ra_header', step.get('ra_details'))
                if ra is not None and step.get('o') == 429:
                    if ra > wait:
                        ra_larger = True
                    if ra == 0:
                        wait = 0 if sc['enforce'] else wait      # "0 seconds" enforced: anything from 0 to the own backoff is within the documentation
                    elif sc['enforce'] or ra > wait:
                        wait = wait_hi = ra
            if nxt is None:
                closed = a['sid'] in first401
                if got is not None and got['r'] == 'exc' and got['type'] == 'LoginError' and same_seen:
                    break
                if not out['hung']:
                    res.fail('C12/gave-up-early', f'o{i}: attempt #{j} (transient failure #{n} of at most {len(backoffs) + 1}) got {a["outcome"]} at t={a["t_done"]} '
                             f'and was never retried; the caller got {got}' + (' (its session was invalidated meanwhile)' if closed else ''))
                break
            gap = nxt['t'] - a['t_done']
            if gap < wait - TOL:
                res.fail('C12/retried-too-early', f'o{i}: attempt #{j} got {a["outcome"]} at t={a["t_done"]}; the next came after {gap:.6f}s, '
                         f'less than the required {wait}s (backoffs {backoffs}, enforce_retry_after={sc["enforce"]})')
            elif gap > wait_hi + TOL and nxt['sid'] == a['sid']:
                res.fail('C12/retried-too-late', f'o{i}: attempt #{j} got {a["outcome"]} at t={a["t_done"]}; the next came after {gap:.6f}s on the same session '
                         f'instead of {wait}s (backoffs {backoffs}, enforce_retry_after={sc["enforce"]})')
            if nxt['sid'] != a['sid']:
                n = 0
        else:
            if not attempts and not out['hung']:
                if not (got is not None and got['r'] == 'exc' and got['type'] == 'LoginError' and same_seen):
                    res.fail('C12/request-never-sent', f'o{i}: no request reached the server; the caller got {got}')
    # exactly one re-authentication per invalidated session
    want_logins = 1 + len(first401)
    done_logins = [l for l in logins if l['t1'] is not None]
    if same_seen:
        pass      # identical credentials again: the vault stays empty; later 401s cannot happen
    if len(done_logins) != want_logins and not out['hung'] and not same_seen:
        res.fail('C12/login-count', f'{len(first401)} session(s) were answered 401 => {want_logins} logins expected (the initial one included), '
                 f'but the login handler ran {len(done_logins)} times at {[l["t0"] for l in logins]}')
    blocked = 0
    for sid, t401 in first401.items():
        blocked = max(blocked, len({r['name'] for r in out['requests'] if r['sid'] == sid and r['outcome'] == 401}))
    if escalated:
        res.label('escalated-after-retries')
    if ra_larger:
        res.label('retry-after-larger-than-backoff')
    if blocked >= 2:
        res.label('several-requests-in-one-401')
    if same_seen:
        res.label('same-credentials-returned-again')
    res.nontrivial = escalated or ra_larger or blocked >= 2


# ------------------------------------------------------------------------------------------ (B) operator level
FAULTS = [{'do': 'status', 'code': 500}, {'do': 'status', 'code': 503}, {'do': 'exc', 'exc': 'conn'}, {'do': 'status', 'code': 400},
          {'do': 'status', 'code': 429, 'retry_after_header': 1}, {'do': 'exc', 'exc': 'timeout'}]


@st.composite
def operator_scenarios(draw):
    backoffs = draw(st.sampled_from([[], [0.2], [0.1, 0.3], {'reiter': [0.5]}, 0.25]))
    delays = draw(st.sampled_from([[], [2], [1, 3, 7], [1, 3, 7], {'reiter': [2, 5]}, {'tuple': [4, 4, 9]}]))
    # (the on.event handler makes every processing cycle visible, also the ones that have nothing to do)
    handlers = [{'kind': 'event', 'id': 'ev'}, {'kind': 'create', 'id': 'c', 'duration': 0}, {'kind': 'update', 'id': 'u', 'duration': 0}]
    spec = {'handlers': handlers, 'settings': {'networking.error_backoffs': backoffs, 'queueing.error_delays': delays,
                                               'persistence.consistency_timeout': 1.0, 'watching.reconnect_backoff': 0.1}}
    dts = st.sampled_from([0.0, 0.1, 0.3, 0.5, 1.0, 1.0, 2.0, 4.0, 8.0])
    vals = st.integers(0, 9)
    x_edit = st.builds(lambda v, dt: {'a': 'edit_spec', 'obj': 0, 'v': v, 'dt': dt}, vals, dts)
    other = st.builds(lambda o, v, dt: {'a': 'edit_spec', 'obj': o, 'v': v, 'dt': dt}, st.integers(1, 2), vals, dts)
    create_other = st.builds(lambda o, v, dt: {'a': 'create', 'obj': o, 'v': v, 'dt': dt}, st.integers(1, 2), vals, dts)
    burst = st.builds(lambda f, n, dt: {'a': 'fault', 'spec': dict(f, on='patch', name='o0', nth=0, count=n), 'dt': dt},
                      st.sampled_from(FAULTS), st.integers(1, 9), dts)
    actions = [{'a': 'create', 'obj': 0, 'v': 0, 'dt': draw(dts)}] if draw(st.booleans()) else []
    actions += draw(st.lists(st.one_of(x_edit, x_edit, x_edit, other, other, create_other, burst, burst), min_size=4, max_size=18))
    if not any(a['a'] == 'create' and a['obj'] == 0 for a in actions):
        actions.insert(draw(st.integers(0, 2)), {'a': 'create', 'obj': 0, 'v': 0, 'dt': draw(dts)})
    return {'mode': 'operator', 'seed': draw(st.integers(0, 9999)), 'spec': spec, 'cluster': {'status_sub': draw(st.booleans())}, 'actions': actions}


def plain(cfg):
    if isinstance(cfg, dict):
        return list(cfg.get('reiter') or cfg.get('tuple') or [])
    return list(cfg) if isinstance(cfg, list) else [cfg]


def run_operator(sc, res):
    run = cl.Run(sc)
    try:
        try:
            run.run()
            # the faults stop; after every throttling delay has surely elapsed the object changes once more (the probe)
            run.cluster.faults.clear()
            delays = plain(sc['spec']['settings']['queueing.error_delays'])
            run.advance(max(delays or [0]) + 15.0)
            run.t_probe = run.sim.world.now
            run.do({'a': 'edit_spec', 'obj': 0, 'v': 777, 'dt': 0.0})
            run.advance(30.0)
        except Livelock as e:
            res.fail('C12/livelock', str(e))
        check_operator(sc, run, res, delays)
        res.summary = cl.summarize(run, max_calls=30)
    finally:
        run.close()


def check_operator(sc, run, res, delays):
    sim = run.sim
    st_ = sc['spec']['settings']
    bo = st_['networking.error_backoffs']
    backoffs = plain(bo)
    op = run.op()
    if op is None or not op.alive:
        res.fail('C12/operator-stopped', f'the operator is not running at the end: exit={op.exit if op else None}')
        return
    if len(run.incarnations) != 1:
        res.fail('C12/operator-stopped', f'the operator had to be restarted: {run.incarnations}')
    # --- the failing object's patches: cycles and escalations
    xs = [r for r in sim.cluster.requests if r['name'] == 'o0' and 'patch' in r['classes']]
    calls0 = [c for c in sim.trace if c.get('k') == 'call' and c.get('name') == 'o0' and c['kind'] in ('create', 'update')]
    escalations = []      # dict(t, seq, i): i = how many processing cycles of the object failed directly before this one
    n = 0
    for j, r in enumerate(xs):
        kind = classify(r['outcome'])
        if kind == 'ok':
            n = 0
        elif kind == 'fatal':
            escalations.append({'t': r['t_done'], 'seq': r['seq'], 'why': r['outcome']})
            n = 0
        elif kind == 'transient':
            n += 1
            if n > len(backoffs):
                escalations.append({'t': r['t_done'], 'seq': r['seq'], 'why': r['outcome']})
                n = 0
        else:
            res.fail('C12/harness', f'unclassified outcome {r["outcome"]} of a PATCH')
    cycles = [c for c in sim.trace if c.get('k') == 'call' and c.get('name') == 'o0' and c['hid'] == 'ev']
    failed_in_a_row = 0
    for k, c in enumerate(cycles):
        hi = cycles[k + 1]['seq'] if k + 1 < len(cycles) else float('inf')
        mine = [e for e in escalations if c['seq'] < e['seq'] < hi]
        for e in mine:
            e['i'] = failed_in_a_row
        failed_in_a_row = failed_in_a_row + 1 if mine else 0
    for e in escalations:
        e.setdefault('i', 0)
    # --- containment in time: after an escalation the object is left alone for the configured delay
    for e in escalations:
        if not delays:
            continue
        want = delays[min(e['i'], len(delays) - 1)]
        nxt_req = min([r['t'] for r in sim.cluster.requests if r['name'] == 'o0' and r['t'] > e['t'] + TOL], default=None)
        nxt_call = min([c['t0'] for c in sim.trace if c.get('k') == 'call' and c.get('name') == 'o0' and c['t0'] > e['t'] + TOL], default=None)
        nxt = min([t for t in (nxt_req, nxt_call) if t is not None], default=None)
        e['next'] = nxt
        if nxt is not None and nxt < e['t'] + want - TOL:
            res.fail('C12/throttle-too-short', f'o0: escalated error #{e["i"] + 1} in a row ({e["why"]}) at t={e["t"]}: error_delays {delays} require {want}s of silence, '
                     f'but the object was processed again at t={nxt} (after {nxt - e["t"]:.6f}s)')
    # --- the throttling ends when documented (and is reset by a success): a change that arrives when the object is neither
    #     being patched nor inside a due silence is processed at once; otherwise right after the request chain / the silence ends
    intervals = []
    n = 0
    for j, r in enumerate(xs):
        kind = classify(r['outcome'])
        end = r['t_done'] if r['t_done'] is not None else r['t']
        if kind == 'transient':
            n += 1
            if n <= len(backoffs) and j + 1 < len(xs):
                end = xs[j + 1]['t']
            else:
                n = 0
        else:
            n = 0
        intervals.append((r['t'], end))
    for e in escalations:
        if delays:
            intervals.append((e['t'], e['t'] + delays[min(e['i'], len(delays) - 1)]))
    for v in sim.cluster.history:
        if v['name'] != 'o0' or v['writer'] != 'env' or v['type'] != 'MODIFIED' or v['t'] > run.t_probe - 1.0:
            continue
        d = v['t']
        for _ in range(50):
            moved = False
            for a, b in intervals:
                if a - TOL <= d < b - TOL:
                    d, moved = b, True
            if not moved:
                break
        seen = [c for c in cycles if int(c['rv']) >= v['rv'] and c['t0'] <= d + 0.5]
        if not seen:
            nxt = min([c['t0'] for c in cycles if int(c['rv']) >= v['rv']], default=None)
            res.fail('C12/throttled-too-long', f'o0: the change at t={v["t"]} (rv={v["rv"]}) was due for processing at t={d} (after the request retries and the '
                     f'documented silence {delays} following the escalations {[(e["t"], e["i"]) for e in escalations]}), but it was processed at t={nxt}')
    others_not_delayed(run, res)
    body = recovery(sc, run, res, calls0, f'escalations: {escalations}')
    if escalations:
        res.label('escalation')
    if any(e['i'] >= 1 for e in escalations):
        res.label('consecutive-escalations')
    if any(e['i'] == 0 for e in escalations[1:]):
        res.label('reset-by-success')
    res.nontrivial = bool(escalations) and body is not None


# ------------------------------------------------------------------------------------------ (C) unexpected errors while processing
# Not an API failure but an error inside the framework's own processing of one object: somebody damaged what the operator persists
# on the object (the last-handled state or a progress record is no JSON any more), so that every processing cycle of that object
# raises before any handler runs. The index function (which runs first in a cycle) is the witness of every cycle that was attempted.
DAMAGED = ['{not json', 'garbage', '[1, 2']


@st.composite
def unexpected_scenarios(draw):
    delays = draw(st.sampled_from([[], [2], [1, 3, 7], [1, 3, 7], {'reiter': [2, 5]}, {'tuple': [4, 4, 9]}]))
    handlers = [{'kind': 'index', 'id': 'idx'}, {'kind': 'event', 'id': 'ev'},
                {'kind': 'create', 'id': 'c', 'duration': 0}, {'kind': 'update', 'id': 'u', 'duration': 0}]
    spec = {'handlers': handlers, 'settings': {'queueing.error_delays': delays, 'persistence.consistency_timeout': 1.0,
                                               'queueing.idle_timeout': draw(st.sampled_from([5.0, 0.5, 2.0]))}}
    # (a damaged progress record raises only in the cycles that select that handler; the last-handled state is read in every cycle)
    key = 'kopf.zalando.org/last-handled-configuration'
    dts = st.sampled_from([0.0, 0.1, 0.5, 1.0, 1.0, 2.0, 3.0, 4.0, 8.0, 12.0])
    vals = st.integers(0, 9)
    x_edit = st.builds(lambda v, dt: {'a': 'edit_spec', 'obj': 0, 'v': v, 'dt': dt}, vals, dts)
    x_note = st.builds(lambda v, dt: {'a': 'annotate', 'obj': 0, 'v': v, 'dt': dt}, vals, dts)
    other = st.builds(lambda o, v, dt: {'a': 'edit_spec', 'obj': o, 'v': v, 'dt': dt}, st.integers(1, 2), vals, dts)
    create_other = st.builds(lambda o, v, dt: {'a': 'create', 'obj': o, 'v': v, 'dt': dt}, st.integers(1, 2), vals, dts)
    damage = st.builds(lambda v, dt: {'a': 'annotate_raw', 'obj': 0, 'key': key, 'value': v, 'dt': dt}, st.sampled_from(DAMAGED), dts)
    repair = st.builds(lambda dt: {'a': 'annotate_raw', 'obj': 0, 'key': key, 'value': None, 'dt': dt}, dts)
    actions = [{'a': 'create', 'obj': 0, 'v': 0, 'dt': draw(st.sampled_from([0.5, 1.0, 3.0]))}]
    actions += draw(st.lists(st.one_of(x_edit, x_edit, x_note, other, other, create_other, damage, damage, repair), min_size=4, max_size=18))
    return {'mode': 'unexpected', 'seed': draw(st.integers(0, 9999)), 'spec': spec, 'key': key,
            'cluster': {'status_sub': draw(st.booleans())}, 'actions': actions}


def run_unexpected(sc, res):
    run = cl.Run(sc)
    try:
        delays = plain(sc['spec']['settings']['queueing.error_delays'])
        try:
            run.run()
            # the damage is repaired; after every throttling delay has surely elapsed the object changes once more (the probe)
            run.do({'a': 'annotate_raw', 'obj': 0, 'key': sc['key'], 'value': None, 'dt': 0.0})
            run.advance(max(delays or [0]) + 15.0)
            run.t_probe = run.sim.world.now
            run.do({'a': 'edit_spec', 'obj': 0, 'v': 777, 'dt': 0.0})
            run.advance(30.0)
        except Livelock as e:
            res.fail('C12/livelock', str(e))
        check_unexpected(sc, run, res, delays)
        res.summary = cl.summarize(run, max_calls=30)
    finally:
        run.close()


def is_damaged(view, key):
    v = ((view.get('metadata') or {}).get('annotations') or {}).get(key)
    return v is not None and v in DAMAGED


def check_unexpected(sc, run, res, delays):
    sim = run.sim
    key = sc['key']
    op = run.op()
    if op is None or not op.alive:
        res.fail('C12/operator-stopped', f'the operator is not running at the end: exit={op.exit if op else None}')
        return
    if len(run.incarnations) != 1:
        res.fail('C12/operator-stopped', f'the operator had to be restarted: {run.incarnations}')
    cycles = [c for c in sim.trace if c.get('k') == 'call' and c.get('name') == 'o0' and c['hid'] == 'idx']
    failures = []      # dict(t, i): processing cycles of o0 that raised (their view carried the damage), i = failed cycles directly before
    n = 0
    for c in cycles:
        if is_damaged(c['view'], key):
            failures.append({'t': c['t0'], 'i': n, 'rv': c['rv']})
            n += 1
        else:
            n = 0
    intervals = []
    for e in failures:
        if not delays:
            continue
        want = delays[min(e['i'], len(delays) - 1)]
        intervals.append((e['t'], e['t'] + want))
        nxt_req = min([r['t'] for r in sim.cluster.requests if r['name'] == 'o0' and r['t'] > e['t'] + TOL], default=None)
        nxt_call = min([c['t0'] for c in sim.trace if c.get('k') == 'call' and c.get('name') == 'o0' and c['t0'] > e['t'] + TOL], default=None)
        nxt = min([t for t in (nxt_req, nxt_call) if t is not None], default=None)
        if nxt is not None and nxt < e['t'] + want - TOL:
            res.fail('C12/throttle-too-short', f'o0: unexpected error #{e["i"] + 1} in a row (damaged {key}) in the cycle at t={e["t"]}: error_delays {delays} '
                     f'require {want}s of silence, but the object was processed again at t={nxt} (after {nxt - e["t"]:.6f}s)')
    # a damaged view must not get through to the change handlers as if nothing had happened
    for c in sim.trace:
        if c.get('k') == 'call' and c.get('name') == 'o0' and c['kind'] in ('create', 'update', 'event') and is_damaged(c['view'], key):
            res.fail('C12/harness', f'{c["hid"]} ran on a view with a damaged {key}: the damage does not raise, the scenario family is void')
            break
    # every change is processed when due: at once, or right after the documented silence
    for v in sim.cluster.history:
        if v['name'] != 'o0' or v['writer'] != 'env' or v['type'] != 'MODIFIED' or v['t'] > run.t_probe - 1.0:
            continue
        d = v['t']
        for _ in range(50):
            moved = False
            for a, b in intervals:
                if a - TOL <= d < b - TOL:
                    d, moved = b, True
            if not moved:
                break
        seen = [c for c in cycles if int(c['rv']) >= v['rv'] and c['t0'] <= d + 0.5]
        if not seen:
            nxt = min([c['t0'] for c in cycles if int(c['rv']) >= v['rv']], default=None)
            res.fail('C12/throttled-too-long', f'o0: the change at t={v["t"]} (rv={v["rv"]}) was due for processing at t={d} (after the documented silence '
                     f'{delays} following the failed cycles {[(e["t"], e["i"]) for e in failures]}), but it was processed at t={nxt}')
    others_not_delayed(run, res)
    calls0 = [c for c in sim.trace if c.get('k') == 'call' and c.get('name') == 'o0' and c['kind'] in ('create', 'update')]
    body = recovery(sc, run, res, calls0, f'failed cycles: {failures}')
    if failures:
        res.label('unexpected-error')
    if any(e['i'] >= 1 for e in failures):
        res.label('consecutive-unexpected-errors')
    if any(e['i'] == 0 for e in failures[1:]):
        res.label('unexpected:reset-by-success')
    res.nontrivial = bool(failures) and body is not None


def others_not_delayed(run, res):
    sim = run.sim
    judged = 0
    for t, act, eff in run.performed:
        if act['a'] in ('edit_spec', 'create') and act.get('obj') in (1, 2) and eff:
            name = cl.OBJECTS[act['obj']]
            hid = 'c' if act['a'] == 'create' else 'u'
            # (an edit to the value it already has changes nothing)
            vers = [v for v in sim.cluster.history if v['name'] == name and v['t'] == t and v['writer'] == 'env']
            if act['a'] == 'edit_spec' and not vers:
                continue
            # (changes of the same object within the same half-second may be handled together: only isolated changes are judged)
            near = [v for v in sim.cluster.history if v['name'] == name and v['writer'] == 'env' and abs(v['t'] - t) <= 0.5]
            if len(near) != 1 or near[0]['type'] != ('ADDED' if act['a'] == 'create' else 'MODIFIED'):
                continue
            judged += 1
            got = [c for c in sim.trace if c.get('k') == 'call' and c.get('name') == name and c['hid'] == hid and t - TOL <= c['t0'] <= t + 0.5]
            if not got:
                res.fail('C12/other-object-delayed', f'{name}: changed at t={t} but its {hid} handler did not start within 0.5s, '
                         f'while o0 was failing/throttled; calls: {[(c["hid"], c["t0"]) for c in sim.trace if c.get("k") == "call" and c.get("name") == name][:8]}')


def recovery(sc, run, res, calls0, ctx):
    sim = run.sim
    body = sim.cluster.objects.get((KEX, 'default', 'o0'))
    if body is not None:
        after = [c for c in calls0 if c['t0'] >= run.t_probe - TOL and c['outcome'] == 'ok']
        if not after:
            res.fail('C12/no-recovery', f'o0: changed at t={run.t_probe} after the faults stopped and all delays elapsed, but no handler ran; {ctx}')
        dcfg = sc['spec'].get('diffbase_storage')
        last = cl.read_last_handled(body, dcfg)
        if last is None or last.get('spec') != cl.essence(body).get('spec'):
            res.fail('C12/no-recovery', f'o0: at quiescence the last-handled state {last} differs from the current one {cl.essence(body)}')
        if cl.raw_progress_keys(body, sc['spec'].get('progress_storage'), ['c', 'u']):
            res.fail('C12/no-recovery', 'o0: progress records are left at quiescence')
    return body


def run_case(scenario):
    res = CaseResult()
    if scenario['mode'] == 'client':
        out = run_client(scenario)
        check_client(scenario, out, res)
        res.summary = {'results': out['results'], 'logins': out['logins'],
                       'requests': [(r['name'], r['sid'], round(r['t'], 6), r['outcome'], r['t_done']) for r in out['requests']][:40]}
        return res
    if scenario['mode'] == 'unexpected':
        run_unexpected(scenario, res)
        return res
    run_operator(scenario, res)
    return res


def scenarios():
    return st.one_of(client_scenarios(), client_scenarios(), operator_scenarios(), operator_scenarios(), unexpected_scenarios())


def run_shard(ctx):
    n = ctx['examples'] or BUDGET[ctx['tier']]
    return explore(scenarios(), run_case, seed=ctx['seed'], max_examples=n, tier=ctx['tier'], known_ids=ctx['known_ids'])
