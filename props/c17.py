"""C17 — In-memory indices mirror the cluster; handling waits for the initial index."""
import itertools

from hypothesis import strategies as st

from props import closedloop as cl
from kopfsim.sim import KEX, KEY
from kopfsim.world import Livelock
from runner.pbt import CaseResult, explore

ID = 'C17'
LEVEL = 'exploration'
RULE = ('closed-loop histories over two resource kinds (kopfexamples: handled, optionally indexed; kopfwhys: indexed) with up to 3 objects '
        'each: creations (also before the operator starts), edits of the per-object index-result plan (dict with colliding keys / several '
        'keys / scalar / None / TemporaryError with delay / PermanentError / arbitrary error under errors=ignored|temporary|permanent, '
        'optionally slow), label toggles against label filters, deletions, re-creations, slow initial listings per kind, watch-stream '
        'breaks, and operator restarts. Oracle 1 (mirror): a reference model written from docs/indexing.rst is folded over the indexing '
        'passes the operator made (recognised by a probe index function that is always invoked) and the processed DELETED events; it '
        'predicts which index functions must (not) be invoked in a pass, and the full content of every index at every moment; every '
        'snapshot of the indices taken inside any handler (index, on.event, change handlers, timers, daemons) must equal the prediction. '
        'Oracle 2 (gate): no change handler, timer or daemon of an incarnation starts before every indexed kind was listed and every '
        'listed object went through an indexing pass (or was deleted). Non-trivial: an observed snapshot where two objects share an '
        'index key, and at least one removal (deletion/mismatch/error) or retention (None/ignored error) after a value was stored; '
        'distinct by scenario JSON')
ASSUMPTIONS = [
    'the simulated API server delivers every change, including DELETED, after a broken stream (no compaction here: an object deleted while nobody watches is C19\'s matter)',
    'index functions are coroutines: the indices are updated in the same event-loop step in which the last index function of a pass returns',
    'a discard caused by a DELETED event is located only within [deletion in the cluster, on.event call for it]: observations inside that window accept both contents',
    'index keys are strings or None; values are ints/strings (compared as sorted reprs per key)',
]
BUDGET = {'quick': 120, 'thorough': 1500}

RES = {'x': (KEX, 'kopfexamples'), 'y': (KEY, 'kopfwhys')}
NAMES = {'x': ['x0', 'x1', 'x2'], 'y': ['y0', 'y1', 'y2']}
GATED = ('create', 'update', 'delete', 'resume', 'timer', 'daemon')


# ------------------------------------------------------------------------------------------ generator
@st.composite
def steps(draw):
    r = draw(st.sampled_from(['dict', 'dict', 'dict', 'dict', 'dict', 'dict', 'scalar', 'scalar', 'none', 'none', 'temp', 'perm', 'err', 'err']))
    step = {'r': r}
    if r == 'dict':
        if draw(st.integers(0, 3)) == 0:
            step['kv'] = draw(st.sampled_from([{'a': 1, 'b': 2}, {'a': 1, 'b': 1}, {'b': 3, 'c': 3}, {}, {'': 0, 'a': 0}]))
        else:
            # (falsy keys and values are legal results: only None means "nothing")
            step['k'] = draw(st.sampled_from(['a', 'a', 'a', 'b', '']))
            step['v'] = draw(st.sampled_from([1, 2, 3, 0, '']))      # (not False next to 0: they are equal values in Python, the snapshots compare by repr)
    elif r == 'scalar':
        step['v'] = draw(st.sampled_from([1, 2, 3, 0, '']))
    elif r == 'temp':
        step['delay'] = draw(st.sampled_from([0, 2.0, 1000.0]))
    if draw(st.integers(0, 5)) == 0:
        step['slow'] = draw(st.sampled_from([0.05, 0.3, 1.5]))
    return step


@st.composite
def plans(draw, hids):
    plan = {'*': draw(steps())}
    for hid in hids:
        if draw(st.integers(0, 2)) == 0:
            plan[hid] = draw(steps())
    return plan


@st.composite
def scenarios(draw):
    x_indexed = draw(st.booleans())
    handlers = []
    if x_indexed:
        handlers.append({'kind': 'index', 'id': 'p_x', 'resource': 'kopfexamples', 'fixed': {'r': 'none'}})
    handlers.append({'kind': 'index', 'id': 'p_y', 'resource': 'kopfwhys', 'fixed': {'r': 'none'}})
    ix = []
    for i in range(draw(st.integers(1, 3))):
        res = draw(st.sampled_from(['y', 'y', 'x'])) if x_indexed else 'y'
        h = {'kind': 'index', 'id': f'ix{i}', 'resource': RES[res][1],
             'labels': draw(st.sampled_from([None, None, {'on': '@present'}, {'on': 'yes'}])),
             'errors': draw(st.sampled_from([None, None, 'ignored', 'temporary', 'permanent']))}
        if h['errors'] == 'temporary':
            h['backoff'] = draw(st.sampled_from([2.0, 1000.0, 0]))
        handlers.append(h)
        ix.append(h['id'])
    handlers.append({'kind': 'event', 'id': 'ev_x', 'resource': 'kopfexamples'})
    handlers.append({'kind': 'event', 'id': 'ev_y', 'resource': 'kopfwhys'})
    handlers.append({'kind': 'create', 'id': 'c', 'duration': draw(st.sampled_from([0, 0, 0.5]))})
    handlers.append({'kind': 'update', 'id': 'u', 'duration': 0})
    if draw(st.booleans()):
        handlers.append({'kind': 'resume', 'id': 'r', 'duration': 0})
    if draw(st.booleans()):
        handlers.append({'kind': 'timer', 'id': 't', 'interval': draw(st.sampled_from([1.0, 2.5])), 'duration': 0})
    if draw(st.booleans()):
        handlers.append({'kind': 'daemon', 'id': 'dm', 'behaviour': 'exit', 'exit_delay': 0})
    if draw(st.booleans()):
        handlers.append({'kind': 'create', 'id': 'cy', 'resource': 'kopfwhys', 'duration': 0})
    spec = {'handlers': handlers, 'settings': {'watching.reconnect_backoff': 0.1}}

    dts = st.sampled_from([0.0, 0.0, 0.05, 0.2, 0.5, 1.0, 3.0])
    res = st.sampled_from(['y', 'y', 'y', 'x'])
    objs = st.integers(0, 2)
    labels = st.sampled_from([None, None, 'yes', 'no'])
    create = st.builds(lambda r, o, p, l, dt: {'a': 'icreate', 'res': r, 'obj': o, 'plan': p, 'label': l, 'dt': dt}, res, objs, plans(ix), labels, dts)
    edit = st.builds(lambda r, o, p, dt: {'a': 'iedit', 'res': r, 'obj': o, 'plan': p, 'dt': dt}, res, objs, plans(ix), dts)
    label = st.builds(lambda r, o, l, dt: {'a': 'ilabel', 'res': r, 'obj': o, 'v': l, 'dt': dt}, res, objs, labels, dts)
    delete = st.builds(lambda r, o, dt: {'a': 'idelete', 'res': r, 'obj': o, 'dt': dt}, res, objs, dts)
    recreate = st.builds(lambda r, o, p, l, dt: {'a': 'irecreate', 'res': r, 'obj': o, 'plan': p, 'label': l, 'dt': dt}, res, objs, plans(ix), labels, dts)
    brk = st.builds(lambda r, k, dt: {'a': 'ibreak', 'res': r, 'kind': k, 'dt': dt}, res, st.sampled_from(['eof', 'conn']), dts)
    adv = st.builds(lambda dt: {'a': 'advance', 'dt': dt}, st.sampled_from([0.5, 2.0, 3.0]))
    env = st.one_of(create, create, edit, edit, edit, label, delete, recreate, brk, adv)
    pre = draw(st.lists(create, max_size=6))
    for a in pre:
        a['dt'] = 0.0
    faults = []
    for r in ('x', 'y'):
        if draw(st.integers(0, 2)) == 0:
            faults.append({'a': 'fault', 'spec': {'on': 'list', 'plural': RES[r][1], 'do': 'latency', 'dt': draw(st.sampled_from([0.3, 2.0])), 'nth': 0, 'count': 100}})
    actions = draw(st.lists(env, min_size=3, max_size=14))
    # an operator that serves two namespaces (not the whole cluster): every (kind, namespace) pair is listed on its own, and each
    # listing can be slow on its own
    namespaces = ['default', 'ns-b'] if draw(st.integers(0, 2)) == 0 else None
    if namespaces:
        for a in pre + actions:
            if 'res' in a and draw(st.booleans()):
                a['ns'] = 'ns-b'
        faults = []
        for r in ('x', 'y'):
            for ns in namespaces:
                if draw(st.integers(0, 2)) == 0:
                    faults.append({'a': 'fault', 'spec': {'on': 'list', 'plural': RES[r][1], 'ns': ns, 'do': 'latency', 'dt': draw(st.sampled_from([0.3, 2.0])),
                                                          'nth': 0, 'count': 100}})
    if draw(st.integers(0, 2)) == 0:
        pos = draw(st.integers(0, len(actions)))
        actions.insert(pos, {'a': 'downtime', 'how': draw(st.sampled_from(['stop', 'kill'])), 'down': draw(st.sampled_from([0.0, 1.0])), 'dt': 0.0,
                             'edits': draw(st.lists(st.one_of(create, edit, delete), max_size=3))})
    return {'seed': draw(st.integers(0, 9999)), 'spec': spec, 'warmup': draw(st.sampled_from([0.0, 0.1, 1.0, 4.0])),
            'cluster': {'extra_resources': [{'gvp': list(KEY), 'kind': 'KopfWhy'}], 'namespaces': namespaces},
            'op_kwargs': ({'clusterwide': False, 'namespaces': namespaces} if namespaces else {}),
            'pre': faults + pre, 'actions': actions}


# ------------------------------------------------------------------------------------------ interpreter
class Run(cl.Run):
    n = 0

    def do(self, act):
        a = act['a']
        if not (a.startswith('i') and 'res' in act):
            return super().do(act)
        c = self.cluster
        rkey = RES[act['res']][0]
        ns = act.get('ns', 'default')
        name = (NAMES[act['res']][act['obj']] + ('' if ns == 'default' else '-b')) if 'obj' in act else None
        t = self.sim.world.now
        eff = True
        self.n += 1

        def body():
            b = {'spec': {'idx': act['plan'], 'n': self.n}}
            if act.get('label') is not None:
                b['metadata'] = {'labels': {'on': act['label']}}
            return b
        if a == 'icreate':
            eff = c.create(rkey, ns, name, body()) is not None
        elif a == 'irecreate':
            if (rkey, ns, name) in c.objects:
                c.delete(rkey, ns, name, force=True)
            c.create(rkey, ns, name, body())
        elif a == 'iedit':
            eff = c.edit(rkey, ns, name, lambda b: b.setdefault('spec', {}).update(idx=act['plan'], n=self.n)) is not None
        elif a == 'ilabel':
            def fn(b):
                labels = b['metadata'].setdefault('labels', {})
                if act['v'] is None:
                    labels.pop('on', None)
                else:
                    labels['on'] = act['v']
            eff = c.edit(rkey, ns, name, fn) is not None
        elif a == 'idelete':
            eff = c.delete(rkey, ns, name) is not None
        elif a == 'ibreak':
            c.break_watches(rkey=rkey, kind=act.get('kind', 'eof'))
        else:
            raise ValueError(a)
        self.performed.append((t, act, eff))
        self.advance(act.get('dt') or 0.0)


# ------------------------------------------------------------------------------------------ reference model
def matches(h, body):
    want = h.get('labels')
    if not want:
        return True
    labels = (body.get('metadata') or {}).get('labels') or {}
    for k, v in want.items():
        if v == '@present':
            if k not in labels:
                return False
        elif v == '@absent':
            if k in labels:
                return False
        elif labels.get(k) != v:
            return False
    return True


def planned(h, body):
    plan = (body.get('spec') or {}).get('idx') or {}
    return plan.get(h['id'], plan.get('*', {'r': 'dict'}))


def result_values(step, name):
    """The documented meaning of what an index function returned."""
    r = step.get('r', 'dict')
    if r == 'dict':
        if step.get('kv') is not None:
            return {k: repr(v) for k, v in step['kv'].items()}
        return {step.get('k', 'k'): repr(step.get('v', name))}
    if r == 'scalar':
        return {'None': repr(step.get('v', name))}
    return None


FOREVER = float('inf')
TOL = 1e-6


def check(run, res):
    sim = run.sim
    spec = run.sc['spec']
    hs = {h['id']: h for h in spec['handlers']}
    ixs = [h for h in spec['handlers'] if h['kind'] == 'index' and not h.get('fixed')]
    probes = {h['resource']: h['id'] for h in spec['handlers'] if h['kind'] == 'index' and h.get('fixed')}
    indexed_plurals = set(probes)
    plural_of = {KEX: 'kopfexamples', KEY: 'kopfwhys'}
    deletions = {}       # uid -> (seq, t) of the DELETED entry in the cluster's history
    uid_plural = {}
    for v in sim.cluster.history:
        if v['rkey'] in plural_of:
            uid_plural[v['uid']] = plural_of[v['rkey']]
            if v['type'] == 'DELETED':
                deletions[v['uid']] = (v['seq'], v['t'])
    labels = set()
    collision = removal = retention = False

    for inc in run.incarnations:
        name = inc['name']
        calls = [c for c in sim.trace if c.get('k') == 'call' and c.get('inc') == name and c.get('uid') is not None]
        # --- indexing passes: a probe call opens a pass of its object
        passes = []
        open_pass = {}
        for c in calls:
            if c['kind'] != 'index':
                continue
            if c['hid'] in probes.values():
                p = {'uid': c['uid'], 'name': c['name'], 'body': c['view'], 't0': c['t0'], 'seq0': c['seq'], 'calls': [c]}
                open_pass[c['uid']] = p
                passes.append(p)
            elif c['uid'] in open_pass:
                open_pass[c['uid']]['calls'].append(c)
            else:
                res.fail('C17/index-fn-without-pass', f'{name}: index function {c["hid"]} invoked for {c["name"]} outside of any pass of the probe index')
        events = []
        for p in passes:
            done = all(c.get('seq1') is not None and c['outcome'] != 'cancelled' for c in p['calls'])
            p['complete'] = done
            if done:
                events.append((max(c['seq1'] for c in p['calls']) + 0.5, 0, 'pass', p))
        ev_deleted = {}
        for c in calls:
            if c['kind'] == 'event' and c.get('type') == 'DELETED' and uid_plural.get(c['uid']) in indexed_plurals:
                ev_deleted[c['uid']] = c['seq']
        for uid, (dseq, dt) in deletions.items():
            if uid_plural.get(uid) not in indexed_plurals:
                continue
            if dt < inc['t_start'] - TOL:
                continue
            events.append((dseq, 0, 'del-lo', uid))
            if uid in ev_deleted:
                events.append((ev_deleted[uid] - 0.25, 0, 'del-hi', uid))
        for c in calls:
            if 'indices' in c:
                events.append((c['seq'], 1, 'obs', c))
        events.sort(key=lambda e: (e[0], e[1]))

        vals = {}        # uid -> hid -> {key: repr}
        excl = {}        # uid -> hid -> until (inf = forever)
        stored_once = set()
        uncertain = set()
        gone = set()
        for seq, _, what, x in events:
            if what == 'del-lo':
                uncertain.add(x)
            elif what == 'del-hi':
                uncertain.discard(x)
                gone.add(x)
                if any(vals.get(x, {}).values()):
                    removal = True
                    labels.add('removed-by-deletion')
                vals.pop(x, None)
                excl.pop(x, None)
            elif what == 'pass':
                p = x
                uid, body = p['uid'], p['body'] or {}
                plural = uid_plural.get(uid)
                if uid in gone:
                    res.fail('C17/indexed-after-deletion', f'{name}: {p["name"]} ({uid}) went through an indexing pass after its DELETED event was processed')
                invoked = {c['hid']: c for c in p['calls']}
                t_end = max(c['t1'] for c in p['calls'])
                for h in ixs:
                    if h['resource'] != plural:
                        continue
                    hid = h['id']
                    mine = vals.setdefault(uid, {})
                    until = excl.get(uid, {}).get(hid)
                    if not matches(h, body):
                        expect = False
                        why = 'the filter does not match'
                    elif until is not None and p['t0'] < until - TOL:
                        expect = False
                        why = f'excluded from indexing till {until}'
                    elif until is not None and p['t0'] < until + TOL:
                        expect = None
                        why = 'boundary'
                    else:
                        expect = True
                        why = 'the filter matches and the object is not excluded'
                    actual = hid in invoked
                    if expect is not None and expect != actual:
                        res.fail('C17/index-fn-invocation', f'{name}: pass over {p["name"]} rv={body.get("metadata", {}).get("resourceVersion")} at t={p["t0"]}: '
                                 f'index function {hid} was {"" if actual else "not "}invoked, though {why}')
                    if not actual:
                        if mine.get(hid):
                            removal = True
                            labels.add('removed-by-mismatch' if not matches(h, body) else 'removed-by-exclusion')
                        mine[hid] = None
                        continue
                    step = planned(h, body)
                    r = step.get('r', 'dict')
                    if r in ('dict', 'scalar'):
                        mine[hid] = result_values(step, p['name'])
                        excl.get(uid, {}).pop(hid, None)
                        if mine[hid]:
                            stored_once.add((uid, hid))
                    elif r == 'none' or (r == 'err' and h.get('errors') in (None, 'ignored')):
                        excl.get(uid, {}).pop(hid, None)
                        if mine.get(hid):
                            retention = True
                            labels.add('kept-on-none' if r == 'none' else 'kept-on-ignored-error')
                    else:
                        if mine.get(hid):
                            removal = True
                            labels.add('removed-by-' + r + ('' if r != 'err' else '-' + h['errors']))
                        mine[hid] = None
                        if r == 'perm' or (r == 'err' and h['errors'] == 'permanent'):
                            excl.setdefault(uid, {})[hid] = FOREVER
                        elif r == 'temp':
                            d = step.get('delay', 1)
                            excl.setdefault(uid, {})[hid] = t_end + (d or 0)
                        else:
                            b = h.get('backoff')
                            excl.setdefault(uid, {})[hid] = t_end + (60.0 if b is None else b)
            elif what == 'obs':
                c = x
                snap = c['indices']
                for h in ixs:
                    hid = h['id']
                    got = snap.get(hid)
                    if got is None:
                        res.fail('C17/index-missing', f'{name}: handler {c["hid"]} was not given the index {hid}')
                        continue
                    sure = [u for u in vals if u not in uncertain and vals[u].get(hid)]
                    maybe = [u for u in vals if u in uncertain and vals[u].get(hid)]
                    ok = False
                    first = None
                    for k in range(len(maybe) + 1):
                        for subset in itertools.combinations(maybe, k):
                            want = {}
                            for u in sure + list(subset):
                                for key, v in vals[u][hid].items():
                                    want.setdefault(key, []).append(v)
                            want = {k2: sorted(v) for k2, v in want.items()}
                            if first is None:
                                first = want
                            if want == got:
                                ok = True
                                break
                        if ok:
                            break
                    if not ok:
                        res.fail('C17/index-differs', f'{name}: at t={c["t0"]} handler {c["hid"]} ({c["kind"]}, object {c["name"]}) saw index {hid} = {got}, '
                                 f'while the documented rules give {first} for the passes made so far'
                                 + (f' (with or without the objects being deleted: {maybe})' if maybe else ''))
                    if any(len(v) > 1 for v in got.values()):
                        collision = True
                # probe indices must stay empty
                for pid in probes.values():
                    if snap.get(pid):
                        res.fail('C17/none-result-stored', f'{name}: index {pid} whose function always returns None holds {snap[pid]}')

        # --- the gate
        lists = {}
        for r in sim.cluster.requests:
            if r['client'] == name and r.get('listed') is not None and r['plural'] in indexed_plurals and r['outcome'] == 200 and r['t_done'] is not None:
                lists.setdefault((r['plural'], r['ns']), r)
        served = run.sc['cluster'].get('namespaces') or [None]      # one listing per served namespace, or one for the whole cluster
        waited = False
        first_gated = None
        for c in calls:
            if c['kind'] not in GATED:
                continue
            if first_gated is None:
                first_gated = c
            for plural, ns in [(pl, ns) for pl in sorted(indexed_plurals) for ns in served]:
                lst = lists.get((plural, ns))
                if lst is None or lst['t_done'] > c['t0'] + TOL:
                    res.fail('C17/gate-before-listing', f'{name}: {c["kind"]} handler {c["hid"]} of {c["name"]} started at t={c["t0"]} before {plural}'
                             f'{"" if ns is None else " of namespace " + ns} were listed ({"never" if lst is None else lst["t_done"]})')
                    continue
                for uid, rv in lst['listed']:
                    ok = any(p['uid'] == uid and p['complete'] and max(cc['seq1'] for cc in p['calls']) < c['seq'] for p in passes)
                    ok = ok or (uid in deletions and deletions[uid][1] <= c['t0'] + TOL)
                    if not ok:
                        res.fail('C17/gate-before-indexed', f'{name}: {c["kind"]} handler {c["hid"]} of {c["name"]} started at t={c["t0"]} before the listed '
                                 f'{plural} object {uid} was indexed')
        if first_gated is not None and lists:
            listed_uids = {u for l in lists.values() for u, _ in l['listed']}
            firsts = {}
            for p in passes:
                if p['complete'] and p['uid'] in listed_uids:
                    firsts.setdefault(p['uid'], max(cc['t1'] for cc in p['calls']))
            t_ready = max([l['t_done'] for l in lists.values()] + list(firsts.values()))
            xlists = [r for r in sim.cluster.requests if r['client'] == name and r.get('listed') is not None and r['plural'] == 'kopfexamples'
                      and r['outcome'] == 200 and r['t_done'] is not None]
            if xlists and xlists[0]['listed'] and t_ready > xlists[0]['t_done'] + 0.25 and first_gated['t0'] >= t_ready - TOL:
                waited = True
        if waited:
            labels.add('gate-made-handlers-wait')

        # --- at the end, the latest version of every live object went through a pass
        if inc['t_end'] is None:
            for (rkey, ns, oname), body in sim.cluster.objects.items():
                plural = plural_of.get(rkey)
                if plural in indexed_plurals:
                    rv = body['metadata']['resourceVersion']
                    if not any(p['uid'] == body['metadata']['uid'] and (p['body'] or {}).get('metadata', {}).get('resourceVersion') == rv for p in passes):
                        res.fail('C17/latest-not-indexed', f'{name}: at quiescence {plural}/{oname} rv={rv} never went through an indexing pass')

    if collision:
        labels.add('colliding-keys')
    for l in sorted(labels):
        res.label(l)
    res.nontrivial = collision and (removal or retention)


def run_case(scenario):
    res = CaseResult()
    run = Run(scenario)
    try:
        try:
            run.run()
            run.quiesce(10.0)
            # slow index functions over a backlog of events can take longer: wait on while indexing passes keep coming
            for _ in range(20):
                recent = [c for c in run.sim.trace if c.get('k') == 'call' and c['kind'] == 'index'
                          and (c.get('t1') is None or c['t1'] > run.sim.world.now - 4.0)]
                if not recent:
                    break
                run.advance(5.0)
        except Livelock as e:
            res.fail('C17/livelock', str(e))
        check(run, res)
        res.summary = cl.summarize(run, max_calls=25)
    finally:
        run.close()
    return res


def run_shard(ctx):
    n = ctx['examples'] or BUDGET[ctx['tier']]
    return explore(scenarios(), run_case, seed=ctx['seed'], max_examples=n, tier=ctx['tier'], known_ids=ctx['known_ids'])
