"""C14 — Resume handlers run once per object per operator process."""
from hypothesis import strategies as st

from props import c02, closedloop as cl
from kopfsim.sim import KEX
from kopfsim.world import Livelock
from runner.pbt import CaseResult, explore

ID = 'C14'
LEVEL = 'exploration'
RULE = ('closed-loop histories in two or more operator incarnations: objects are created/handled/left half-handled/marked for deletion '
        'in earlier incarnations or during downtime, then a new incarnation starts with resume handlers (failure scripts, deleted= '
        'both ways) while the environment breaks watch streams, compacts the history (410 => re-listing) and edits objects before, '
        'during and after the resume cycle. Oracle per (incarnation, object, resume handler): at most one successful completion; '
        'exactly one at quiescence for objects that were listed at the start as handled-before, without unfinished progress and not '
        'being deleted (and survived); none for objects first seen through the stream (first seen = in a listing, the initial one or a re-listing, or in a stream event), nor for objects listed as being deleted unless '
        'deleted=True. Non-trivial: a re-listing after the resume cycle finished, or an edit during it; distinct by scenario JSON')
ASSUMPTIONS = c02.ASSUMPTIONS[:4] + [
    'bounded liveness: the resume cycle must be over within sum(scripted delays) + 60 s after the last action',
]
BUDGET = {'quick': 120, 'thorough': 1000}


@st.composite
def scenarios(draw):
    delays = st.sampled_from([0.0, 0.5, 3.0, 7.0])
    handlers = []
    for i in range(draw(st.integers(1, 2))):
        handlers.append({'kind': 'resume', 'id': f'r{i}', 'deleted': draw(st.sampled_from([None, None, True, False])),
                         'script': draw(cl.outcome_scripts(delays, max_len=2, kinds=('ok', 'temp', 'err', 'perm'))), 'backoff': 3.0,
                         'duration': draw(st.sampled_from([0, 0, 1.0]))})
    handlers.append({'kind': 'create', 'id': 'c', 'script': draw(cl.outcome_scripts(delays, max_len=1, kinds=('ok', 'temp'))), 'duration': 0})
    if draw(st.booleans()):
        handlers.append({'kind': 'update', 'id': 'u', 'script': draw(cl.outcome_scripts(delays, max_len=1, kinds=('ok', 'temp'))), 'duration': 0})
    if draw(st.booleans()):
        handlers.append({'kind': 'delete', 'id': 'd', 'script': [{'o': 'temp', 'delay': draw(st.sampled_from([30.0, 300.0]))}], 'duration': 0})
    progress, diffbase = draw(cl.storage_cfgs())
    spec = {'handlers': handlers, 'lifecycle': draw(st.sampled_from(['asap', 'all_at_once', 'one_by_one'])),
            'progress_storage': progress, 'diffbase_storage': diffbase,
            'settings': {'persistence.consistency_timeout': 1.0, 'queueing.idle_timeout': draw(st.sampled_from([5.0, 0.5])),
                         'watching.reconnect_backoff': 0.1}}
    dts = st.sampled_from([0.0, 0.1, 0.5, 1.0, 3.0, 8.0])
    env = cl.env_actions(dts, n_objects=3, with_delete=True)
    phase1 = draw(st.lists(env, min_size=2, max_size=8))
    if not any(a['a'] == 'create' for a in phase1):
        phase1.insert(0, {'a': 'create', 'obj': 0, 'v': 1, 'dt': 1.0})
    restart = {'a': 'downtime', 'how': draw(st.sampled_from(['stop', 'kill', 'kill'])), 'down': draw(dts), 'dt': draw(dts),
               'edits': draw(st.lists(env, max_size=3))}
    stream = st.one_of(st.builds(lambda dt: {'a': 'break_watches', 'dt': dt}, dts), st.builds(lambda dt: {'a': 'compact', 'dt': dt}, dts),
                       st.builds(lambda dt: {'a': 'break_watches', 'kind': 'conn', 'dt': dt}, dts))
    clone = st.builds(lambda a, b, dt: {'a': 'clone', 'obj': a, 'to': b, 'dt': dt}, st.integers(0, 2), st.integers(0, 3), dts)
    phase2 = draw(st.lists(st.one_of(env, env, stream, stream, clone), min_size=1, max_size=10))
    actions = phase1 + [restart] + phase2
    if draw(st.booleans()):
        actions += [{'a': 'downtime', 'how': 'stop', 'down': 1.0, 'dt': 1.0, 'edits': []}] + draw(st.lists(st.one_of(env, stream), max_size=4))
    return {'seed': draw(st.integers(0, 9999)), 'spec': spec, 'cluster': {'status_sub': draw(st.booleans()), 'rsp_latency': draw(st.sampled_from([None, None, 0.3, 1.0]))}, 'actions': actions}


def check(run, res):
    sc = run.sc
    spec = sc['spec']
    pcfg, dcfg = spec.get('progress_storage'), spec.get('diffbase_storage')
    sim = run.sim
    hs = {h['id']: h for h in spec['handlers']}
    ids = list(c02.handler_table(spec)) + [h['id'] for h in spec['handlers'] if h['kind'] == 'resume']
    resumes = [h for h in spec['handlers'] if h['kind'] == 'resume']
    versions = {}
    for v in sim.cluster.history:
        if v['rkey'] == KEX:
            versions.setdefault(v['uid'], []).append(v)
    relisted_after = edit_during = False
    for inc in run.incarnations:
        name = inc['name']
        listings = [r for r in sim.cluster.requests if r['client'] == name and r.get('listed') is not None and r['plural'] == 'kopfexamples'
                    and r['outcome'] == 200 and r['t_done'] is not None]
        if not listings:
            continue
        # first sight of every object in this process: through a listing (the initial one, or a re-listing after 410 Gone that
        # brings an object nobody had seen yet) or through a stream event
        sights = {}
        for r in listings:
            for uid, rv in r['listed']:
                sights.setdefault(uid, []).append((r['t_done'], r['seq_applied'], int(rv), 'list'))
        for w in sim.cluster.all_watches:
            if w.rkey == KEX and w.session.client_id == name:
                for (t, typ, rv, uid, tick) in w.delivered:
                    if rv is not None and typ in ('ADDED', 'MODIFIED', 'DELETED'):
                        sights.setdefault(uid, []).append((t, tick, int(rv), 'stream'))
        listed0 = {uid: min(lst)[2] for uid, lst in sights.items() if min(lst)[3] == 'list'}
        if any(uid in listed0 and uid not in {u for u, _ in listings[0]['listed']} for uid in listed0):
            res.label('first-sight-in-a-relisting')
        alive_till_end = inc['t_end'] is None
        for uid, vers in versions.items():
            calls = [c for c in sim.trace if c.get('k') == 'call' and c['inc'] == name and c['uid'] == uid and c['hid'] in hs and hs[c['hid']]['kind'] == 'resume']
            for h in resumes:
                mine = [c for c in calls if c['hid'] == h['id']]
                # "runs to completion": it succeeded, or it failed for good (a permanent error ends it just as well)
                oks = [c for c in mine if c['outcome'] in ('ok', 'perm')]
                lost = any(r['outcome'] != 200 for r in sim.cluster.requests
                           if r['client'] == name and 'patch' in r['classes'] and r.get('name') == vers[0]['name'] and oks and r['t'] >= oks[0]['t0'] - 1e-9)
                if len(oks) > 1 and lost:
                    res.label('record-lost-with-the-object')     # (a 404 on the PATCH that was to record the completion: the object is gone, as in C02-I4)
                elif len(oks) > 1:
                    res.fail('C14/resumed-twice', f'{name}: resume handler {h["id"]} ran to completion {len(oks)} times for {vers[0]["name"]} ({uid}) at t={[(c["t0"], c["outcome"]) for c in oks]}')
                if uid not in listed0:
                    if mine:
                        res.fail('C14/resumed-object-from-stream', f'{name}: resume handler {h["id"]} ran for {vers[0]["name"]} ({uid}) which this process first saw through the stream, not in a listing')
                    continue
                body0 = next((v['body'] for v in vers if v['rv'] == listed0[uid]), None)
                if body0 is None:
                    continue
                deleting0 = bool(body0['metadata'].get('deletionTimestamp'))
                if deleting0 and not h.get('deleted') and mine:
                    # it is legitimate only if the view of the invocation was not being deleted (cannot be: the mark never goes away)
                    res.fail('C14/resumed-deleting-object', f'{name}: resume handler {h["id"]} (deleted={h.get("deleted")}) ran for {vers[0]["name"]} which was listed as being deleted')
                handled_before = cl.read_last_handled(body0, dcfg) is not None
                unfinished = bool(cl.raw_progress_keys(body0, pcfg, ids))
                survived = ('', '') and any(k[0] == KEX and b['metadata']['uid'] == uid and not b['metadata'].get('deletionTimestamp')
                                            for k, b in sim.cluster.objects.items())
                later_deleting = any(v['body']['metadata'].get('deletionTimestamp') for v in vers if v['rv'] > listed0[uid])
                if handled_before and not unfinished and not deleting0 and survived and not later_deleting and alive_till_end:
                    if len(oks) != 1:
                        res.fail('C14/not-resumed', f'{name}: {vers[0]["name"]} ({uid}) was listed at start as handled before (no unfinished progress, not deleting) '
                                 f'but resume handler {h["id"]} completed {len(oks)} times; its calls: {[(c["t0"], c["outcome"]) for c in mine]}')
                # classification
                if oks:
                    t_done = oks[0]['t1']
                    if any(r['t'] > t_done for r in listings[1:]):
                        relisted_after = True
                    if mine and any(v['writer'] == 'env' and mine[0]['t0'] <= v['t'] <= t_done for v in vers):
                        edit_during = True
    if relisted_after:
        res.label('relisting-after-resume')
    if edit_during:
        res.label('edit-during-resume')
    res.nontrivial = relisted_after or edit_during
    if any(r['outcome'] == 200 and (r.get('watch') and False) for r in sim.cluster.requests):
        pass


def run_case(scenario):
    res = CaseResult()
    run = cl.Run(scenario)
    try:
        try:
            run.run()
            run.quiesce(c02.bound_for(scenario) + 30.0)
        except Livelock as e:
            res.fail('C14/livelock', str(e))
        check(run, res)
        res.summary = cl.summarize(run, max_calls=25)
    finally:
        run.close()
    return res


def run_shard(ctx):
    n = ctx['examples'] or BUDGET[ctx['tier']]
    return explore(scenarios(), run_case, seed=ctx['seed'], max_examples=n, tier=ctx['tier'], known_ids=ctx['known_ids'])
