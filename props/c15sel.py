"""C15, family L3 — the *resource selector* criterion.

Generated: a small cluster (resources of several API groups/versions whose plural/kind/singular/short names and
categories overlap on purpose, a preferred version per group, verbs), 1-3 handlers declared through the public
decorators in every documented selector notation (docs/resources.rst), and a sequence of re-scans of single API
groups (a CRD appears, disappears, changes its names/categories) as the resource observer performs them.

Oracle: an executable reading of docs/resources.rst written without looking at references.Selector:
  * which resources are served (watched) by the operator, and
  * for every served resource, which handlers are selected for an event of an object of that resource;
compared with observation.revise_resources() + the registries' get_handlers().
"""
import itertools
import logging

from hypothesis import strategies as st

from runner.pbt import CaseResult

EVERYTHING = '@everything'
FINDING_S = 'C15-S-core-v1-priority-not-applied-per-event'
GROUPS = ['', 'kopf.dev', 'other.io', 'apps']
VERSIONS = ['v1', 'v1beta1', 'v2']
# (plural, kind, singular, shortcuts): the names collide across entries on purpose
NAMES = [
    ('kopfexamples', 'KopfExample', 'kopfexample', ['kex', 'kexes']),
    ('pods', 'Pod', 'pod', ['po']),
    ('widgets', 'Widget', 'widget', ['wi', 'pods']),          # a short name equal to another resource's plural
    ('kexes', 'Kex', 'kex', []),                               # plural/singular equal to another resource's short names
    ('events', 'Event', 'event', ['ev']),
    ('podsets', 'PodSet', 'podset', ['ps']),                   # a plural that another plural is a prefix of
]
CATEGORIES = ['all', 'kopf']
ALL_VERBS = ['list', 'watch', 'patch', 'get']


@st.composite
def resources(draw, groups=GROUPS):
    out = []
    for g in groups:
        versions = draw(st.lists(st.sampled_from(VERSIONS), unique=True, min_size=0, max_size=2))
        if g == '':
            versions = ['v1'] if versions else []
        if not versions:
            continue
        preferred = draw(st.sampled_from(versions))
        names = draw(st.lists(st.sampled_from(NAMES), unique_by=lambda n: n[0], min_size=1, max_size=3))
        for v in versions:
            for (plural, kind, singular, shorts) in names:
                if len(versions) > 1 and draw(st.integers(0, 3)) == 0:
                    continue        # not every kind is served in every version
                verbs = list(ALL_VERBS)
                if draw(st.integers(0, 7)) == 0:
                    verbs.remove(draw(st.sampled_from(['list', 'watch', 'patch'])))
                out.append({'group': g, 'version': v, 'plural': plural, 'kind': kind,
                            'singular': singular if g != '' or draw(st.booleans()) else '',     # builtins have empty singulars
                            'shortcuts': sorted(shorts if draw(st.integers(0, 3)) else []),
                            'categories': sorted(draw(st.lists(st.sampled_from(CATEGORIES), unique=True, max_size=2))),
                            'preferred': v == preferred, 'verbs': verbs,
                            'namespaced': draw(st.booleans())})
    return out


@st.composite
def selectors(draw):
    """A selector as the decorator arguments of docs/resources.rst: {'args': [...], 'kwargs': {...}}."""
    g = draw(st.sampled_from(['kopf.dev', 'other.io', 'apps', '']))
    v = draw(st.sampled_from(VERSIONS))
    entry = draw(st.sampled_from(NAMES))
    name = draw(st.sampled_from([entry[0], entry[1], entry[2]] + entry[3]))
    form = draw(st.sampled_from(['name', 'name.group', 'name.version.group', 'group,name', 'group/version,name', 'group,version,name',
                                 'v1,name', 'kw', 'kw+group', 'kw+group+version', 'category', 'everything', 'group,everything',
                                 'group/version,everything', 'group,version,everything', 'callable', 'callable+group']))
    if form == 'name':
        return {'args': [name], 'kwargs': {}}
    if form == 'name.group':
        g = g or 'kopf.dev'
        return {'args': [f'{name}.{g}'], 'kwargs': {}}
    if form == 'name.version.group':
        g = g or 'kopf.dev'
        return {'args': [f'{name}.{v}.{g}'], 'kwargs': {}}
    if form == 'group,name':
        g = g or 'apps'
        return {'args': [g, name], 'kwargs': {}}
    if form == 'group/version,name':
        return {'args': [f'{g}/{v}' if g else 'v1', name], 'kwargs': {}} if g else {'args': ['', 'v1', name], 'kwargs': {}}
    if form == 'group,version,name':
        return {'args': [g, v if g else 'v1', name], 'kwargs': {}}
    if form == 'v1,name':
        return {'args': ['v1', name], 'kwargs': {}}
    if form.startswith('kw'):
        which = draw(st.sampled_from(['kind', 'plural', 'singular', 'shortcut']))
        value = {'kind': entry[1], 'plural': entry[0], 'singular': entry[2]}.get(which) or draw(st.sampled_from(entry[3] or ['kex']))
        if draw(st.integers(0, 4)) == 0:
            value = name          # e.g. plural='KopfExample': a name of the wrong sort must not match
        kw = {which: value}
        if 'group' in form:
            kw['group'] = g
        if 'version' in form:
            kw['version'] = v if g else 'v1'
        return {'args': [], 'kwargs': kw}
    if form == 'category':
        kw = {'category': draw(st.sampled_from(CATEGORIES + ['none']))}
        if draw(st.booleans()):
            kw['group'] = g
        return {'args': [], 'kwargs': kw}
    if form == 'everything':
        return {'args': [EVERYTHING], 'kwargs': {}}
    if form == 'group,everything':
        g = g or 'apps'
        return {'args': [g, EVERYTHING], 'kwargs': {}}
    if form == 'group/version,everything':
        return {'args': [f'{g}/{v}' if g else 'v1', EVERYTHING], 'kwargs': {}}
    if form == 'group,version,everything':
        return {'args': [g, v if g else 'v1', EVERYTHING], 'kwargs': {}}
    fn = draw(st.sampled_from(['@fn:true', '@fn:namespaced', '@fn:plural-p', '@fn:nonpreferred']))
    if form == 'callable':
        return {'args': [fn], 'kwargs': {}}
    return {'args': [fn], 'kwargs': {'group': g}}


FNS = {
    '@fn:true': lambda r: True,
    '@fn:namespaced': lambda r: bool(r['namespaced']),
    '@fn:plural-p': lambda r: r['plural'].startswith('p'),
    '@fn:nonpreferred': lambda r: not r['preferred'],
}


@st.composite
def l3_scenarios(draw):
    handlers = []
    for i in range(draw(st.integers(1, 3))):
        handlers.append({'id': f'h{i}', 'kind': draw(st.sampled_from(['event', 'event', 'create', 'index', 'daemon'])),
                         'sel': draw(selectors())})
    cluster = draw(resources())
    rescans = []
    for _ in range(draw(st.integers(0, 3))):
        g = draw(st.sampled_from(['kopf.dev', 'other.io', 'apps']))
        rescans.append({'group': g, 'resources': draw(resources(groups=[g]))})
    return {'mode': 'L3', 'handlers': handlers, 'cluster': cluster, 'rescans': rescans}


# ------------------------------------------------------------------------------------------ reference (docs/resources.rst)
def parse(sel):
    """-> dict(group=None|str, version=None|str, by=kind|plural|singular|shortcut|category|any|everything|fn, name=...)"""
    args, kw = list(sel['args']), dict(sel['kwargs'])
    out = {'group': kw.pop('group', None), 'version': kw.pop('version', None)}
    if kw:
        (by, name), = kw.items()
        out.update(by=by, name=name)
    if args and isinstance(args[0], str) and args[0].startswith('@fn:'):
        out.update(by='fn', name=args[0])
        return out
    if not args:
        return out
    *api, name = args
    if name == EVERYTHING:
        out.update(by='everything', name=None)
    else:
        out.update(by='any', name=name)
    if len(api) == 2:
        out['group'], out['version'] = api
    elif len(api) == 1:
        if '/' in api[0]:
            out['group'], out['version'] = api[0].rsplit('/', 1)
        elif api[0] == 'v1':                      # "v1" alone is the legacy core API
            out['group'], out['version'] = '', 'v1'
        else:
            out['group'] = api[0]
    elif name != EVERYTHING and '.' in name:      # kubectl's notation: name.group or name.version.group
        n, rest = name.split('.', 1)
        first = rest.split('.', 1)[0]
        if _looks_like_version(first):
            out['version'] = first
            out['group'] = rest.split('.', 1)[1] if '.' in rest else out['group']
        else:
            out['group'] = rest
        out['name'] = n
    return out


def _looks_like_version(s):
    import re
    return bool(re.fullmatch(r'v\d+((alpha|beta)\d+)?', s))


def is_events(r):
    return r['plural'] == 'events' and ((r['group'] == '' and r['version'] == 'v1') or
                                        (r['group'] == 'events.k8s.io'))


def ref_check(p, r):
    if p['group'] is not None and p['group'] != r['group']:
        return False
    if p['version'] is not None:
        if p['version'] != r['version']:
            return False
    elif not r['preferred'] and p['by'] != 'fn':       # only preferred versions unless named; callables decide themselves
        return False
    by, name = p['by'], p['name']
    if by == 'kind':
        return r['kind'] == name
    if by == 'plural':
        return r['plural'] == name
    if by == 'singular':
        return r['singular'] == name
    if by == 'shortcut':
        return name in r['shortcuts']
    if by == 'category':
        return name in r['categories']
    if by == 'any':
        return name in (r['kind'], r['plural'], r['singular']) or name in r['shortcuts']
    if by == 'everything':
        return not is_events(r)
    if by == 'fn':
        return bool(FNS[name](r)) and not is_events(r)
    raise ValueError(by)


def specific(p):
    return p['by'] in ('kind', 'plural', 'singular', 'shortcut', 'any')


def rkey(r):
    return (r['group'], r['version'], r['plural'])


def ref_select(p, rs):
    got = [r for r in rs if ref_check(p, r)]
    if specific(p):
        core = [r for r in got if r['group'] == '']        # core v1 has priority over same-named resources elsewhere
        got = core or got
    return got


def ref_served(handlers, rs):
    """All outcomes the documentation allows (the ambiguity rule does not say in which order specifications are examined)."""
    parsed = [(h, parse(h['sel'])) for h in handlers]
    union = {}
    for h, p in parsed:
        for r in ref_select(p, rs):
            union[rkey(r)] = r
    outcomes = set()
    for order in itertools.permutations(range(len(parsed))):
        cur = dict(union)
        for i in order:
            p = parsed[i][1]
            sel = ref_select(p, list(cur.values()))
            if specific(p) and len(sel) > 1:
                for r in sel:
                    cur.pop(rkey(r), None)
        nonwatch = {k for k, r in cur.items() if 'watch' not in r['verbs'] or 'list' not in r['verbs']}
        nonpatch = {k for k, r in cur.items() if 'patch' not in r['verbs']} - nonwatch
        need_patch = any(ref_select(p, [cur[k] for k in nonpatch]) for h, p in parsed if h['kind'] in ('create', 'daemon'))
        for k in nonwatch:
            cur.pop(k)
        if need_patch:
            for k in nonpatch:
                cur.pop(k)
        outcomes.add(frozenset(cur))
    return outcomes


# ------------------------------------------------------------------------------------------ the real thing
def _mk_resource(r):
    from kopf._cogs.structs import references
    return references.Resource(r['group'], r['version'], r['plural'], kind=r['kind'], singular=r['singular'],
                               shortcuts=frozenset(r['shortcuts']), categories=frozenset(r['categories']),
                               namespaced=r['namespaced'], preferred=r['preferred'], verbs=frozenset(r['verbs']))


def _build(handlers):
    import kopf
    from kopf._core.intents.registries import OperatorRegistry
    reg = OperatorRegistry()
    for h in handlers:
        def fn(**_):
            pass
        args = []
        for a in h['sel']['args']:
            if a == EVERYTHING:
                args.append(kopf.EVERYTHING)
            elif isinstance(a, str) and a.startswith('@fn:'):
                f = FNS[a]
                args.append(lambda res, f=f: f({'namespaced': res.namespaced, 'plural': res.plural, 'preferred': res.preferred}))
            else:
                args.append(a)
        kw = dict(h['sel']['kwargs'])
        deco = {'event': kopf.on.event, 'create': kopf.on.create, 'index': kopf.index, 'daemon': kopf.daemon}[h['kind']]
        deco(*args, id=h['id'], registry=reg, **kw)(fn)
    return reg


def _selected_ids(reg, handlers, resource):
    from kopf._cogs.structs import bodies, patches
    from kopf._core.intents import causes
    raw = {'apiVersion': 'x/v1', 'kind': 'X', 'metadata': {'name': 'x', 'namespace': 'ns', 'uid': 'u', 'resourceVersion': '5'}, 'spec': {}}
    common = dict(logger=logging.getLogger('x'), indices={}, memo=None, resource=resource, patch=patches.Patch(), body=bodies.Body(raw))
    got = set()
    got |= {h.id for h in reg._watching.get_handlers(cause=causes.WatchingCause(type='MODIFIED', event={'type': 'MODIFIED', 'object': raw}, **common))}
    got |= {h.id for h in reg._indexing.get_handlers(cause=causes.IndexingCause(**common))}
    got |= {h.id for h in reg._spawning.get_handlers(cause=causes.SpawningCause(reset=False, **common))}
    got |= {h.id for h in reg._changing.get_handlers(cause=causes.ChangingCause(
        initial=False, reason=causes.Reason.CREATE, diff=(), old=None, new={'spec': {}}, **common))}
    return got


def run_l3(sc, res: CaseResult):
    from kopf._cogs.structs import references
    from kopf._core.reactor import observation
    lg = logging.getLogger('kopf._core.reactor.observation')
    old_level = lg.level
    lg.setLevel(logging.ERROR)
    try:
        try:
            reg = _build(sc['handlers'])
        except TypeError as e:
            res.fail('C15/L3-declaration-rejected', f'a documented selector notation is rejected: {sc["handlers"]}: {e}')
            return
        insights = references.Insights()
        current = list(sc['cluster'])
        steps = [{'group': None, 'resources': current}] + sc['rescans']
        for n, step in enumerate(steps):
            if step['group'] is not None:
                current = [r for r in current if r['group'] != step['group']] + list(step['resources'])
            real_rs = [_mk_resource(r) for r in step['resources']]
            observation.revise_resources(group=step['group'], insights=insights, registry=reg, resources=real_rs)
            got = frozenset((r.group, r.version, r.plural) for r in insights.watched_resources)
            allowed = ref_served(sc['handlers'], current)
            if got not in allowed:
                want = sorted(min(allowed, key=lambda s: len(s ^ got)))
                res.fail('C15/L3-served-resources' + (':after-rescan' if n else ''),
                         f'handlers {[(h["id"], h["kind"], h["sel"]) for h in sc["handlers"]]} in a cluster with '
                         f'{[(rkey(r), r["preferred"], r["shortcuts"], r["categories"], r["verbs"]) for r in current]}'
                         f'{" after re-scanning group " + repr(step["group"]) if n else ""}: the operator serves {sorted(got)}, '
                         f'docs/resources.rst says {want}')
                return
            # per served resource: the handlers selected for its events are those whose selector names it
            by_key = {rkey(r): r for r in current}
            for r in insights.watched_resources:
                k = (r.group, r.version, r.plural)
                ids = _selected_ids(reg, sc['handlers'], r)
                served_now = [by_key[x] for x in got]
                want_ids = {h['id'] for h in sc['handlers'] if any(rkey(x) == k for x in ref_select(parse(h['sel']), served_now))}
                if ids != want_ids:
                    # Known finding S: per event, a by-name selector is matched with check() alone: the priority of core v1
                    # (which select() honours when deciding what to serve) is not applied. Recognised by: the handlers selected
                    # are exactly those whose selector names the resource when the priority rule is left out, and every extra
                    # one is a by-name selector for which a served core v1 resource of that name exists.
                    no_priority = {h['id'] for h in sc['handlers'] if ref_check(parse(h['sel']), by_key[k])}
                    extra = ids - want_ids
                    if ids == no_priority and not (want_ids - ids) and all(
                            specific(parse(h['sel'])) and any(x['group'] == '' and ref_check(parse(h['sel']), x) for x in served_now)
                            for h in sc['handlers'] if h['id'] in extra):
                        res.known.append({'id': FINDING_S, 'msg': f'for events of {k} (served: {sorted(got)}) the handlers selected are '
                                          f'{sorted(ids)} although {sorted(extra)} name a core v1 resource by {[h["sel"] for h in sc["handlers"] if h["id"] in extra]}'})
                        res.label('L3-known-S')
                        continue
                    res.fail('C15/L3-handlers-of-resource',
                             f'for events of {k} (served: {sorted(got)}) the handlers selected are {sorted(ids)}, the selectors '
                             f'{[(h["id"], h["sel"]) for h in sc["handlers"]]} name it for {sorted(want_ids)}')
                    return
            if n and step['group'] is not None:
                res.label('L3-rescan')
        parsed = [parse(h['sel']) for h in sc['handlers']]
        res.label('L3', *{'L3-by:' + p['by'] for p in parsed})
        sel0 = [ref_select(p, sc['cluster']) for p in parsed]
        matched_some = any(sel0)
        rejected_some = any(len(s) < len(sc['cluster']) for s in sel0)
        if any(specific(p) and len([r for r in sc['cluster'] if ref_check(p, r)]) > 1 for p in parsed):
            res.label('L3-several-resources-match-a-specific-selector')
        res.nontrivial = matched_some and rejected_some and len(sc['cluster']) >= 3
        res.summary = {'served': sorted(map(list, got)), 'allowed': [sorted(map(list, a)) for a in allowed][:2]}
    finally:
        lg.setLevel(old_level)
