"""C10 — Timer schedule laws: no self-overlap, interval/sharp/idle/initial-delay timing."""
from hypothesis import strategies as st

from props import closedloop as cl
from kopfsim.sim import KEX
from kopfsim.world import Livelock
from runner.pbt import CaseResult, explore

ID = 'C10'
LEVEL = 'exploration'
RULE = ('one generated timer per case (interval x sharp x idle x initial_delay constant/callable x backoff) with generated run '
        'durations (shorter, equal, longer than the interval), outcome scripts and object edits at palette instants, in the closed '
        'loop; oracle T1-T5 over exact virtual start/end instants (tolerance 1e-6). Non-trivial: >=3 runs including a failure, a '
        'duration >= interval, or an idle postponement; distinct by scenario JSON')
ASSUMPTIONS = [
    'virtual time makes start/end instants exact; tolerance 1e-6 s',
    'nothing else delays the timer: no API latency, zero-duration change handlers',
    'any delivered event may reset idling when no diff-base is stored (docs/timers.rst note); only essential changes must',
]
BUDGET = {'quick': 120, 'thorough': 1500}
EPS = 1e-6


@st.composite
def scenarios(draw):
    interval = draw(st.sampled_from([None, 2.0, 2.0, 5.0]))
    idle = draw(st.sampled_from([None, None, 3.0, 7.0]))
    base = interval or 2.0
    h = {'kind': 'timer', 'id': 'tm', 'interval': interval, 'sharp': draw(st.sampled_from([None, None, True])) if interval else None,
         'idle': idle, 'initial_delay': draw(st.sampled_from([None, None, 0, 1.5, '@callable:2.5'])),
         'backoff': draw(st.sampled_from([None, 0.5, 3.0, 0, 0.0])), 'errors': draw(st.sampled_from([None, None, 'temporary'])),
         'duration': draw(st.lists(st.sampled_from([0, 0, 0.5, base / 2, base, base * 1.5, base * 2, base + 1e-6]), min_size=1, max_size=5)),
         'script': draw(st.lists(st.one_of(st.just({'o': 'ok'}), st.just({'o': 'ok'}), st.just({'o': 'err'}),
                                          st.builds(lambda d: {'o': 'temp', 'delay': d}, st.sampled_from([0.0, 0.5, 3.0, 7.0]))), max_size=6))}
    handlers = [h]
    if draw(st.booleans()):
        handlers += [{'kind': 'create', 'id': 'c', 'script': []}, {'kind': 'update', 'id': 'u', 'script': []}]
    dts = st.sampled_from([0.0, 0.5, 1.0, base - 1e-6, base, base + 1e-6, (idle or 3.0), (idle or 3.0) - 1e-6, 10.0, 20.0])
    edits = draw(st.lists(st.fixed_dictionaries({'a': st.sampled_from(['edit_spec', 'edit_spec', 'edit_status', 'annotate']), 'obj': st.just(0),
                                                 'v': st.integers(0, 50), 'dt': dts}), max_size=6))
    for i, e in enumerate(edits):
        e['v'] = i + 1
    # a change that reaches the operator only through a re-listing: the stream breaks, the object changes, the history is compacted
    # (the reconnection gets 410 Gone and lists anew)
    out = []
    for e in edits:
        if e['a'] == 'edit_spec' and draw(st.integers(0, 2 if idle else 5)) == 0:
            out.append({'a': 'compact', 'edit': {'obj': 0, 'v': e['v']}, 'dt': e['dt']})
        else:
            out.append(e)
    edits = out
    return {'seed': 1, 'spec': {'handlers': handlers, 'settings': {'execution.default_backoff': 4.0, 'persistence.consistency_timeout': 1.0}},
            'cluster': {}, 'actions': [{'a': 'create', 'obj': 0, 'v': 0, 'dt': draw(dts)}] + edits, 'tail': draw(st.sampled_from([20.0, 40.0]))}


def run_case(sc):
    res = CaseResult()
    run = cl.Run(sc)
    try:
        try:
            run.run()
            run.advance(sc['tail'])
        except Livelock as e:
            res.fail('C10/livelock', str(e))
        sim = run.sim
        h = sc['spec']['handlers'][0]
        interval, sharp, idle = h['interval'], h['sharp'], h['idle']
        init = h['initial_delay']
        init = float(init.split(':')[1]) if isinstance(init, str) else (init or 0.0)
        backoff = h['backoff'] if h['backoff'] is not None else 4.0
        has_diffbase = len(sc['spec']['handlers']) > 1
        runs = [c for c in sim.trace if c.get('k') == 'call' and c['hid'] == 'tm' and c['inc'] == 'A1']
        uid = runs[0]['uid'] if runs else None
        deliveries = []        # instants at which events of the object reached the operator
        for r in sim.cluster.requests:
            if r['client'] == 'A1' and r.get('listed'):
                deliveries += [r['t_done'] for (u, rv) in r['listed'] if u == uid]
        # essential changes as the operator got to see them: through the stream or through a (re-)listing, compared with the
        # version it had seen before
        vers = [v for v in sim.cluster.history if v['rkey'] == KEX and v['uid'] == uid]
        by_rv = {v['rv']: v for v in vers}
        seen = []        # (t, order, rv, via)
        for r in sim.cluster.requests:
            if r['client'] == 'A1' and r.get('listed'):
                seen += [(r['t_done'], r['seq'], int(rv), 'list') for (u, rv) in r['listed'] if u == uid]
        for w in sim.cluster.all_watches:
            if w.rkey == KEX and w.session.client_id == 'A1':
                for (t, typ, rv, u, tick) in w.delivered:
                    if u == uid:
                        deliveries.append(t)
                        if rv:
                            seen.append((t, tick, int(rv), 'stream'))
        essential = []
        relisted_change = False
        prev = None
        for (t, _, rv, via) in sorted(seen):
            v = by_rv.get(rv)
            if v is None:
                continue
            if prev is not None and prev['body'].get('spec') != v['body'].get('spec'):
                essential.append(t)
                if via == 'list':
                    relisted_change = True
            prev = v
        if not runs:
            res.label('no-runs')
            res.summary = {'runs': []}
            return res
        spawn = min(deliveries) if deliveries else 0.0
        failures = postponed = longrun = False
        # T4 + first start
        first = runs[0]
        if first['t0'] + EPS < spawn + init:
            res.fail('C10/T4-before-initial-delay', f'first run at {first["t0"]}, the object appeared at {spawn}, initial_delay={init}')
        for a, b in zip(runs, runs[1:]):
            if a['t1'] is None or b['t0'] + EPS < a['t1']:
                res.fail('C10/T1-overlap', f'run at {b["t0"]} started before the previous one ({a["t0"]}..{a["t1"]}) ended')
                break
        for i, c in enumerate(runs):
            n = c['t0']
            # T5: not within the idle time after an essential change
            if idle:
                for ch in essential:
                    if ch + EPS < n and n + EPS < ch + idle:
                        res.fail('C10/T5-ran-while-not-idle', f'run at {n} although an essential change was delivered at {ch} (idle={idle})')
                        break
            if i == 0:
                base = spawn + init
            else:
                p = runs[i - 1]
                if p['t1'] is None:
                    break
                s, e = p['t0'], p['t1']
                if e - s >= (interval or 1e18) - EPS:
                    longrun = True
                ok = p['outcome'] == 'ok'
                if not ok:
                    failures = True
                    d = (p.get('delay') or 0.0) if p['outcome'] == 'temp' else backoff
                    base = e + d
                elif interval is None:
                    if idle is None:
                        res.fail('C10/T2-one-shot-repeated', f'a timer with neither interval nor idle ran again at {n}')
                        break
                    base = None      # idle-only: the next run is idle after some later event
                elif sharp:
                    k = round((n - s) / interval)
                    on_grid = abs((n - s) - k * interval) <= EPS
                    in_window = e - EPS <= n <= e + interval + EPS
                    if not idle and not (on_grid and in_window):
                        res.fail('C10/T2-sharp-off-grid', f'sharp timer (interval {interval}): run {s}..{e}, next at {n}: not the next grid point counted from {s}')
                        break
                    if on_grid and in_window:
                        pass
                    base = n if (on_grid and in_window) else e      # with idling: only a lower bound, lateness needs a reason
                else:
                    base = e + interval
            if base is not None and n + EPS < base:
                res.fail('C10/T2T3-too-early', f'run #{i} at {n}; earliest by schedule {base} (previous {runs[i - 1]["t0"] if i else None}..{runs[i - 1]["t1"] if i else None} {runs[i - 1]["outcome"] if i else ""}, '
                         f'interval={interval} sharp={sharp} idle={idle} init={init})')
                break
            late = base is None or n > base + EPS
            if late:
                reasons = [r + idle for r in deliveries + [spawn]] if idle else []
                if any(abs(n - x) <= EPS for x in reasons):
                    postponed = True
                elif base is None and i > 0 and abs(n - runs[i - 1]['t1']) <= EPS and any(runs[i - 1]['t0'] < r and r + idle <= n + EPS for r in deliveries):
                    postponed = True     # (idle-only: the change came during the previous run and its idle time was over when that run ended)
                elif sharp and idle and interval and i > 0 and abs(((n - runs[i - 1]['t0']) / interval) - round((n - runs[i - 1]['t0']) / interval)) * interval <= EPS:
                    postponed = True
                else:
                    res.fail('C10/T2T3-late-without-reason', f'run #{i} at {n}; scheduled for {base}; no event at {n}-idle ({idle}); deliveries {sorted(set(round(x, 6) for x in deliveries))[:8]}')
                    break
        # liveness: the schedule goes on (bounded)
        last = runs[-1]
        horizon = sim.world.now
        if last['t1'] is not None and interval is not None and last['outcome'] == 'ok':
            due = last['t1'] + interval + (idle or 0.0) + EPS
            if due + 1.0 < horizon and not (idle and any(last['t1'] < ch for ch in deliveries)):
                res.fail('C10/stopped-ticking', f'last run {last["t0"]}..{last["t1"]}, nothing until {horizon} (interval={interval}, idle={idle})')
        if relisted_change:
            res.label('essential-change-seen-through-relisting')
        if failures:
            res.label('with-failure')
        if postponed:
            res.label('idle-postponement')
        if longrun:
            res.label('duration>=interval')
        res.label(f'shape:{"interval" if interval else ""}{"+sharp" if sharp else ""}{"+idle" if idle else ""}' or 'shape:none')
        res.nontrivial = (len(runs) >= 3 and failures) or longrun or postponed
        res.summary = {'runs': [(round(c['t0'], 6), c['t1'] and round(c['t1'], 6), c['outcome']) for c in runs][:12], 'spawn': spawn}
    finally:
        run.close()
    return res


def run_shard(ctx):
    n = ctx['examples'] or BUDGET[ctx['tier']]
    return explore(scenarios(), run_case, seed=ctx['seed'], max_examples=n, tier=ctx['tier'], known_ids=ctx['known_ids'])
