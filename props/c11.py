"""C11 — Handler error policy: retry delays, permanence, retries/timeout limits."""
from hypothesis import strategies as st

from props import closedloop as cl
from kopfsim.sim import KEX
from kopfsim.world import Livelock
from runner.pbt import CaseResult, explore

ID = 'C11'
LEVEL = 'exploration'
RULE = ('one handler under test per case - change handler, sub-handler, daemon, timer or startup activity - with generated errors '
        'mode x retries x timeout x backoff x outcome script (ok / TemporaryError(delay) / PermanentError / arbitrary) x attempt '
        'durations, run in the closed loop (change handlers also across graceful restarts, and across a supersession of their cause while '
        'they wait for a retry: a resume handler of an object edited meanwhile, one function serving updates and deletions of an object '
        'deleted meanwhile). Oracle: the observed attempt sequence '
        '(start, end, retry kwarg) is replayed against an executable reading of docs/errors.rst: retry numbers 0,1,2..., next start '
        '>= previous end + requested delay/backoff, nothing after a final outcome, at most retries=N invocations, no start at or '
        'after first start + timeout, a due retry does happen (bounded liveness), a record that reached a limit says failure. '
        'Non-trivial: the script reaches a retries/timeout limit, or a restart lies between two attempts; distinct by scenario JSON')
ASSUMPTIONS = [
    'docs/errors.rst is the reference; delays are measured from the end of the failed attempt',
    'graceful restarts only (an attempt cut by a kill is legitimately repeated with the same retry number)',
    'the API-server model and virtual time of kopfsim; liveness bound = sum of requested delays + 60 s',
]
BUDGET = {'quick': 100, 'thorough': 1000}
EPS = 1e-6


@st.composite
def scenarios(draw):
    # 'resume' and 'updel': the handler's cause is superseded by another cause that selects it too while it waits for its retry
    # (a resume handler of an object edited meanwhile; one function serving updates and deletions of an object deleted meanwhile)
    kind = draw(st.sampled_from(['create', 'create', 'update', 'sub', 'daemon', 'timer', 'startup', 'resume', 'updel']))
    delays = st.sampled_from([0.0, 0.5, 1.0, 3.0, 7.0])
    steps = st.one_of(st.builds(lambda d: {'o': 'temp', 'delay': d}, delays), st.builds(lambda d: {'o': 'temp', 'delay': d}, delays),
                      st.just({'o': 'err'}), st.just({'o': 'err'}), st.just({'o': 'perm'}), st.just({'o': 'ok'}),
                      st.builds(lambda d: {'o': 'temp', 'delay': d, 'sub': True}, delays), st.just({'o': 'perm', 'sub': True}))
    h = {'id': 'hx', 'script': draw(st.lists(steps, min_size=1, max_size=6)),
         'errors': draw(st.sampled_from([None, None, 'temporary', 'permanent', 'ignored'])),
         'retries': draw(st.sampled_from([None, None, 1, 2, 3])),
         'timeout': draw(st.sampled_from([None, None, 2.0, 6.0, 6.0 - 1e-6, 15.0])),
         'backoff': draw(st.sampled_from([None, 0.5, 3.0, 0])),
         'duration': draw(st.lists(st.sampled_from([0, 0, 0.5, 2.0]), min_size=1, max_size=4))}
    restarts = []
    if kind in ('create', 'update', 'sub') and draw(st.booleans()):
        restarts = sorted(draw(st.lists(st.sampled_from([0.5, 2.0, 4.0, 8.0, 15.0]), min_size=1, max_size=2, unique=True)))
    # downtimes: short, and day-scale (virtual time makes a multi-day outage free)
    downs = [draw(st.sampled_from([1.0, 1.0, 3.0, 86400.0 + 2.0, 3 * 86400.0 + 1.5, 86400.0 - 1.0])) for _ in restarts]
    h['timeout'] = draw(st.sampled_from([h['timeout'], h['timeout'], 2.5, 6.5, 600.0])) if restarts else h['timeout']
    edits = []
    if kind == 'timer' and draw(st.booleans()):
        # an idling timer: essential changes of the object between (and after) its attempts postpone them, and nothing else
        h['idle'] = draw(st.sampled_from([1.0, 3.0, 8.0]))
        edits = sorted(draw(st.lists(st.sampled_from([0.5, 2.0, 3.5, 5.0, 7.0, 9.5, 12.0, 16.0, 21.0, 30.0]), min_size=1, max_size=4, unique=True)))
    if kind == 'updel':
        h['retries'] = h['timeout'] = None      # (a handler that finished in the update cycle starts afresh in the deletion cycle)
    return {'kind': kind, 'h': h, 'restarts': restarts, 'downs': downs, 'supersede_at': draw(st.sampled_from([0.0, 0.2, 1.0, 2.5, 5.0, 9.0])), 'default_backoff': draw(st.sampled_from([2.0, 5.0])),
            'lifecycle': draw(st.sampled_from(['asap', 'all_at_once'])), 'sibling': draw(st.booleans()), 'edits': edits,
            'status_sub': draw(st.booleans())}


def build_spec(sc):
    h = dict(sc['h'])
    kind = sc['kind']
    handlers = []
    if kind == 'sub':
        sub = dict(h, id='hx')
        parent = {'kind': 'create', 'id': 'p', 'script': [], 'subs': [sub]}
        handlers.append(parent)
        hid = 'p/hx'
    elif kind == 'daemon':
        handlers.append(dict(h, kind='daemon', behaviour='exit'))
        hid = 'hx'
    elif kind == 'timer':
        handlers.append(dict(h, kind='timer', interval=4.0))
        hid = 'hx'
    elif kind == 'startup':
        handlers.append(dict(h, kind='startup'))
        hid = 'hx'
    elif kind == 'resume':
        handlers.append({'kind': 'create', 'id': 'c0', 'script': []})
        handlers.append(dict(h, kind='resume'))
        hid = 'hx'
    elif kind == 'updel':
        handlers.append(dict(h, kind='update', also=['delete']))
        hid = 'hx'
    else:
        handlers.append(dict(h, kind=kind))
        hid = 'hx'
    if sc['sibling'] and kind == 'startup':
        # a second startup handler that needs a few more attempts: what the first one ended with must not be forgotten meanwhile
        handlers.append({'kind': 'startup', 'id': 'sib', 'script': [{'o': 'temp', 'delay': 2.0}, {'o': 'temp', 'delay': 9.0}]})
    if sc['sibling'] and kind in ('create', 'update', 'sub'):
        handlers.append({'kind': 'update' if kind == 'update' else 'create', 'id': 'sib',
                         'script': [{'o': 'temp', 'delay': 2.0}, {'o': 'temp', 'delay': 9.0}]})
    spec = {'handlers': handlers, 'lifecycle': sc['lifecycle'],
            'settings': {'execution.default_backoff': sc['default_backoff'], 'persistence.consistency_timeout': 1.0}}
    return spec, hid


def final_of(step, mode):
    o = step
    if o in ('ok', 'perm'):
        return True
    if o == 'err':
        return mode in ('permanent', 'ignored')
    return False


def run_case(sc):
    res = CaseResult()
    spec, hid = build_spec(sc)
    h = sc['h']
    mode = h['errors'] or 'temporary'
    backoff = h['backoff'] if h['backoff'] is not None else sc['default_backoff']
    N, T = h['retries'], h['timeout']
    actions = [{'a': 'create', 'obj': 0, 'v': 1, 'dt': 1.0}]
    if sc['kind'] == 'update':
        actions.append({'a': 'edit_spec', 'obj': 0, 'v': 2, 'dt': 0.0})
    if sc['kind'] == 'resume':
        actions += [{'a': 'restart', 'how': 'stop', 'down': 1.0, 'dt': sc.get('supersede_at', 1.0), 'grace': 10.0},
                    {'a': 'edit_spec', 'obj': 0, 'v': 2, 'dt': 0.0}]
    if sc['kind'] == 'updel':
        actions += [{'a': 'edit_spec', 'obj': 0, 'v': 2, 'dt': sc.get('supersede_at', 1.0)}, {'a': 'delete', 'obj': 0, 'dt': 0.0}]
    t_prev = 0.0
    for j, t in enumerate(sc.get('edits') or []):
        actions.append({'a': 'advance', 'dt': t - t_prev})
        actions.append({'a': 'edit_spec', 'obj': 0, 'v': 10 + j, 'dt': 0.0})
        t_prev = t
    t_prev = 0.0
    for i, t in enumerate(sc['restarts']):
        actions.append({'a': 'advance', 'dt': t - t_prev})
        actions.append({'a': 'restart', 'how': 'stop', 'down': (sc.get('downs') or [1.0] * 9)[i], 'dt': 0.0, 'grace': 10.0})
        t_prev = t
    scenario = {'seed': 1, 'spec': spec, 'cluster': {'status_sub': sc['status_sub']}, 'actions': actions, 'auto_restart': sc['kind'] != 'startup'}
    bound = sum((s.get('delay', 0) if s['o'] == 'temp' else backoff) for s in h['script']) + sum(h['duration']) * 2 + 60.0 + 4.0 * len(h['script'])
    run = cl.Run(scenario)
    try:
        try:
            run.run()
            if sc['kind'] == 'startup':
                run.advance(bound)
            else:
                run.quiesce(bound)
        except Livelock as e:
            res.fail('C11/livelock', str(e))
        sim = run.sim
        calls = [c for c in sim.trace if c.get('k') == 'call' and c['hid'] == hid]
        if sc['kind'] == 'update':
            calls = [c for c in calls if c.get('reason') == 'update']
        if sc['kind'] in ('resume', 'updel') and len({c.get('reason') for c in calls}) > 1:
            res.label('cause-superseded-between-attempts')
        # series: for timers a success starts a new series
        series, cur = [], []
        for c in calls:
            cur.append(c)
            if sc['kind'] == 'timer' and (c['outcome'] == 'ok' or (c['outcome'] == 'err' and mode == 'ignored')):
                series.append(cur)
                cur = []
            elif sc['kind'] == 'updel' and final_of(c['outcome'], mode):
                series.append(cur)      # finished for the update: the deletion is another cycle
                cur = []
        if cur:
            series.append(cur)
        reached_limit = False
        restart_between = False
        stopped_forever = False
        for si, ser in enumerate(series):
            done = [c for c in ser if c['outcome'] not in (None, 'cancelled')]
            if stopped_forever and ser:
                res.fail('C11/E2-invoked-after-final-failure', f'{sc["kind"]} {hid} was invoked again at t={ser[0]["t0"]} after it had failed for good')
                break
            if not done:
                continue
            s0 = done[0]['t0']
            want_retry = 0
            for i, c in enumerate(done):
                # retry numbers (an attempt cut short by a stop is repeated with the same number)
                if c.get('retry') != want_retry:
                    res.fail('C11/retry-number', f'{sc["kind"]} {hid}: attempt #{i} at t={c["t0"]} got retry={c.get("retry")}, expected {want_retry}; '
                             f'sequence {[(x["t0"], x.get("retry"), x["outcome"]) for x in ser]}')
                    break
                want_retry += 1
                if N is not None and i >= N:
                    res.fail('C11/E3-retries-exceeded', f'{sc["kind"]} {hid} with retries={N} was invoked {i + 1} times: {[(x["t0"], x["outcome"]) for x in done]}')
                    break
                if T is not None and c['t0'] - s0 >= T + EPS and i > 0:
                    res.fail('C11/E4-started-after-timeout', f'{sc["kind"]} {hid} with timeout={T}: attempt #{i} started at {c["t0"]}, the first one at {s0}')
                    break
                if i > 0:
                    p = done[i - 1]
                    if final_of(p['outcome'], mode):
                        res.fail('C11/E2-invoked-after-final-outcome', f'{sc["kind"]} {hid} (errors={mode}) was invoked at t={c["t0"]} after its attempt at t={p["t0"]} ended with {p["outcome"]}')
                        break
                    d = p.get('delay', None) if p['outcome'] == 'temp' else backoff
                    d = d or 0.0
                    if c['t0'] + EPS < p['t1'] + d:
                        res.fail('C11/E1-retried-too-soon', f'{sc["kind"]} {hid}: attempt #{i} started at {c["t0"]}, the previous one ended at {p["t1"]} with {p["outcome"]} asking for {d}s')
                        break
                    if p['inc'] != c['inc']:
                        restart_between = True
            # liveness / finality of the last attempt
            last = done[-1]
            i = len(done) - 1
            is_final = final_of(last['outcome'], mode)
            d = (last.get('delay') or 0.0) if last['outcome'] == 'temp' else backoff
            limit_hit = False
            if not is_final:
                if N is not None and i + 1 >= N:
                    limit_hit = True
                if T is not None and (last['t1'] - s0) + d >= T - EPS:
                    limit_hit = True
            if limit_hit:
                reached_limit = True
            if (is_final and last['outcome'] != 'ok' and not (last['outcome'] == 'err' and mode == 'ignored')) or limit_hit:
                if sc['kind'] in ('timer', 'daemon'):
                    stopped_forever = True
            if not is_final and not limit_hit and si == len(series) - 1 and not any(c['outcome'] in (None, 'cancelled') for c in ser[len(done):]):
                alive = run.op() is not None and run.op().alive
                exists = any(k[0] == KEX for k in sim.cluster.objects) or sc['kind'] == 'startup'
                # (with a timeout, a retry that became due while the operator was down may legitimately be skipped: timed out)
                # (and an idling timer's timeout runs from before its wait for idleness, i.e. from earlier than its first attempt: the
                # property bounds the attempts from above - "no attempt starts later than T after the first" -, giving up earlier is no violation)
                undisturbed = T is None or (not sc['restarts'] and not h.get('idle'))
                if (alive or sc['kind'] == 'startup') and exists and undisturbed and sim.world.now - last['t1'] > d + 30.0:
                    res.fail('C11/not-retried', f'{sc["kind"]} {hid}: the attempt at t={last["t0"]} ended with {last["outcome"]} (retry due after {d}s) but nothing followed until t={sim.world.now}')
        # E5: a record that reached the limit says failure
        if N is not None and sc['kind'] in ('create', 'update', 'sub'):
            for v in sim.cluster.history:
                if v['rkey'] == KEX and v['writer'] != 'env':
                    rec = cl.read_progress(v['body'], None, hid)
                    if rec and (rec.get('retries') or 0) >= N and not rec.get('failure') and not rec.get('success'):
                        res.fail('C11/E5-limit-reached-but-not-failed', f'{hid}: record {rec} at rv={v["rv"]} with retries={N}')
                        break
        if sc['kind'] == 'startup':
            op = sim.ops.get('A1')
            final_fail = any(final_of(c['outcome'], mode) and c['outcome'] in ('perm', 'err') and not (c['outcome'] == 'err' and mode == 'ignored') for c in calls) or reached_limit
            if final_fail and op is not None and op.exit is None:
                res.fail('C11/startup-failure-not-fatal', f'the startup handler failed for good but the operator keeps running')
            if final_fail and any(r for r in sim.cluster.requests if r['client'] == 'A1'):
                res.fail('C11/startup-failed-but-api-used', 'API requests were made although the startup activity failed')
        if reached_limit:
            res.label('limit-reached')
        if restart_between:
            res.label('restart-between-attempts')
        res.label('kind:' + sc['kind'], 'errors:' + mode)
        if sc.get('edits'):
            res.label('idling-timer-with-changes-between-attempts')
        res.nontrivial = reached_limit or restart_between
        res.summary = {'attempts': [(c['inc'], round(c['t0'], 6), c.get('retry'), c['outcome']) for c in calls][:12], 'retries': N, 'timeout': T, 'backoff': backoff}
    finally:
        run.close()
    return res


def run_shard(ctx):
    n = ctx['examples'] or BUDGET[ctx['tier']]
    return explore(scenarios(), run_case, seed=ctx['seed'], max_examples=n, tier=ctx['tier'], known_ids=ctx['known_ids'], shrink_keys=())
