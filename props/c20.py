"""C20 — Operator lifecycle: startup first, fail-fast, cleanup last, bounded exit."""
from hypothesis import strategies as st

from kopfsim.cluster import CRDS, Fault, ResDef
from kopfsim.sim import CPEER, KEX
from kopfsim.world import Livelock
from props import closedloop as cl
from runner.pbt import CaseResult, explore

ID = 'C20'
LEVEL = 'exploration'
RULE = ('closed-loop runs of one operator with generated startup and cleanup handlers (outcome scripts, retry limits, durations), a slow change '
        'handler, daemons that exit by the flag or only by cancellation (with generated cancellation backoff/timeout), a timer, peering on/off, '
        'objects created before and during the run, and one terminating trigger at a generated instant (also in the middle of the startup): the '
        'stop flag, cancellation of the run call, an unknown ERROR in the CRD stream (a root task fails), an unknown ERROR in the stream of the '
        'served resource (a watcher fails), or none. Oracle over the global order of handler calls, API requests, stream intervals and the '
        'run call\'s outcome: no request before the last startup handler succeeded; a failed startup => no request at all, no ready flag, the '
        'run call raises; ready flag only after startup; after the trigger the run call returns within the bound derived from the configured '
        'grace periods, raising the failure / CancelledError / nothing respectively; when the first cleanup handler starts, no daemon, timer '
        'or change handler is running, no stream of that process is open, and the peering record is withdrawn; with the stop flag the cleanup '
        'handlers do run; nothing of that process happens after the run call returned. Non-trivial: a trigger while a daemon and a slow '
        'handler are in flight, or during startup')
ASSUMPTIONS = [
    'bounded exit: max(cancellation_backoff + cancellation_timeout) + handler/cleanup durations and retry delays + 5 s (hung tasks) + 2 s (workers) + 10 s margin of virtual time',
    'cleanup handlers eventually succeed (a failing cleanup is covered by C11\'s policy check); settings.process.ultimate_exiting_timeout is off',
    'with cancellation of the run call the cleanup may be skipped (documented), but must not run before everything else stopped',
]
BUDGET = {'quick': 60, 'thorough': 1500}
TOL = 1e-6
WIDGETS = ('example.com', 'v1', 'widgets')


@st.composite
def activity(draw, kind, i, fail_ok):
    scripts = [[{'o': 'ok'}], [{'o': 'ok'}], [{'o': 'temp', 'delay': 0.5}, {'o': 'ok'}], [{'o': 'temp', 'delay': 0.5}, {'o': 'temp', 'delay': 1.0}, {'o': 'ok'}]]
    if fail_ok:
        scripts += [[{'o': 'perm'}], [{'o': 'temp', 'delay': 0.5}, {'o': 'perm'}]]
    h = {'kind': kind, 'id': f'{kind[0]}{i}', 'script': draw(st.sampled_from(scripts)), 'duration': draw(st.sampled_from([0, 0, 0.4, 1.5]))}
    if fail_ok and draw(st.integers(0, 3)) == 0:
        h['retries'] = draw(st.integers(1, 2))
    return h


@st.composite
def scenarios(draw):
    handlers = [draw(activity('startup', i, True)) for i in range(draw(st.integers(0, 2)))]
    handlers += [draw(activity('cleanup', i, False)) for i in range(draw(st.integers(0, 2)))]
    handlers.append({'kind': 'create', 'id': 'c', 'duration': draw(st.sampled_from([0, 0, 3.0]))})
    for i in range(draw(st.integers(0, 2))):
        handlers.append({'kind': 'daemon', 'id': f'dm{i}', 'behaviour': draw(st.sampled_from(['obey', 'obey', 'cancel'])),
                         'exit_delay': draw(st.sampled_from([0, 0.5])),
                         'cancellation_backoff': draw(st.sampled_from([None, 1.0])), 'cancellation_timeout': draw(st.sampled_from([None, 2.0]))})
    if draw(st.booleans()):
        handlers.append({'kind': 'timer', 'id': 't', 'interval': 1.0, 'duration': draw(st.sampled_from([0, 0.6]))})
    peering = draw(st.booleans())
    spec = {'handlers': handlers, 'settings': {'watching.reconnect_backoff': 0.1, 'networking.error_backoffs': [0.1]}}
    pre = [{'a': 'create', 'obj': i, 'v': i, 'dt': 0.0} for i in range(draw(st.integers(0, 2)))]
    dts = st.sampled_from([0.0, 0.1, 0.3, 0.5, 1.0, 2.0])
    env = st.one_of(st.builds(lambda o, v, dt: {'a': 'create', 'obj': o, 'v': v, 'dt': dt}, st.integers(0, 3), st.integers(0, 9), dts),
                    st.builds(lambda o, v, dt: {'a': 'edit_spec', 'obj': o, 'v': v, 'dt': dt}, st.integers(0, 3), st.integers(0, 9), dts),
                    st.builds(lambda o, dt: {'a': 'delete', 'obj': o, 'dt': dt}, st.integers(0, 3), dts),
                    st.builds(lambda dt: {'a': 'advance', 'dt': dt}, dts))
    before = draw(st.lists(env, max_size=5))
    stopping_family = False
    if draw(st.integers(0, 4)) == 0:
        # the trigger comes while a daemon is already being stopped for another reason (its object is being deleted): the staged
        # termination of the worker is in progress - flag set, cancellation or abandonment still ahead - when the operator exits
        handlers = [h for h in handlers if h['kind'] != 'daemon']
        handlers.append({'kind': 'daemon', 'id': 'dm0', 'behaviour': draw(st.sampled_from(['cancel', 'cancel', 'obey'])),
                         'exit_delay': draw(st.sampled_from([0, 0.5])), 'cancellation_backoff': draw(st.sampled_from([1.0, 2.0])),
                         'cancellation_timeout': draw(st.sampled_from([None, 2.0]))})
        if not any(h['kind'] == 'cleanup' for h in handlers):
            handlers.append({'kind': 'cleanup', 'id': 'c0', 'script': [{'o': 'ok'}], 'duration': 0})
        spec['handlers'] = handlers
        stopping_family = True
        o = draw(st.integers(0, 1))
        before += [{'a': 'create', 'obj': o, 'v': 1, 'dt': 2.0}, {'a': 'delete', 'obj': o, 'dt': draw(st.sampled_from([0.0, 0.1, 0.5, 1.0, 1.5]))}]
    if draw(st.integers(0, 3)) == 0:
        # an event queued behind a slow handler when the trigger comes
        next(h for h in handlers if h['id'] == 'c')['duration'] = 3.0
        o = draw(st.integers(0, 3))
        before += [{'a': 'create', 'obj': o, 'v': 1, 'dt': draw(st.sampled_from([0.1, 0.5]))}, {'a': 'edit_spec', 'obj': o, 'v': 2, 'dt': draw(st.sampled_from([0.1, 0.5, 1.0]))}]
    if draw(st.integers(0, 3)) == 0:
        # a limited number of workers, more busy objects than that, and a stop while they are busy: workers that never got a slot
        # are still queued when the watcher exits
        spec['settings']['queueing.worker_limit'] = draw(st.sampled_from([1, 1, 2]))
        spec['settings']['queueing.exit_timeout'] = draw(st.sampled_from([0.5, 2.0]))
        next(h for h in handlers if h['id'] == 'c')['duration'] = draw(st.sampled_from([3.0, 6.0]))
        before += [{'a': 'create', 'obj': i, 'v': 1, 'dt': 0.0} for i in range(4)] + [{'a': 'advance', 'dt': draw(st.sampled_from([0.1, 0.5, 1.0]))}]
    trigger = draw(st.sampled_from(['stop', 'stop', 'cancel', 'crd-stream-error', 'served-stream-error', 'none']))
    if stopping_family:
        trigger = draw(st.sampled_from(['stop', 'stop', 'stop', 'cancel', 'crd-stream-error']))
    return {'seed': draw(st.integers(0, 9999)), 'spec': spec, 'peering': peering, 'pre': pre, 'warmup': draw(st.sampled_from([0.0, 0.0, 0.2, 0.7, 2.0])),
            'actions': before, 'trigger': trigger, 'auto_restart': False,
            # (a slow API: the trigger may come while a request - e.g. the very first keep-alive of the peering - is applied but unanswered)
            'cluster': {'extra_resources': [{'gvp': list(CPEER), 'kind': 'ClusterKopfPeering', 'namespaced': False}],
                        'rsp_latency': draw(st.sampled_from([None, None, 0.5, 1.0]))},
            'op_kwargs': ({'standalone': False, 'peering_name': 'default', 'priority': 0} if peering else {})}


def startup_fails(spec):
    """An executable reading of the retry policy for the generated startup scripts (only ok/temp/perm occur)."""
    for h in spec['handlers']:
        if h['kind'] != 'startup':
            continue
        limit = h.get('retries')
        for n, step in enumerate(h['script']):
            if limit is not None and n >= limit:
                return True
            if step['o'] == 'perm':
                return True
            if step['o'] == 'ok':
                break
    return False


def bound_for(sc):
    b = 5.0 + 2.0 + 10.0
    grace = 0.0
    for h in sc['spec']['handlers']:
        if h['kind'] == 'daemon':
            grace = max(grace, (h.get('cancellation_backoff') or 0) + (h.get('cancellation_timeout') or 0) + (h.get('exit_delay') or 0))
        if h['kind'] in ('startup', 'cleanup'):
            b += sum((s.get('delay') or 0) for s in h['script']) + len(h['script']) * (h.get('duration') or 0) + 1.0
        if h['kind'] in ('create', 'timer'):
            b += h.get('duration') or 0
    return b + grace


class Run(cl.Run):
    def trigger(self):
        kind = self.sc['trigger']
        c = self.cluster
        self.t_trigger = self.sim.world.now if kind != 'none' else None
        if kind == 'stop':
            self.sim.stop(self.current)
        elif kind == 'cancel':
            self.sim.cancel(self.current)
        elif kind in ('crd-stream-error', 'served-stream-error'):
            rkey, plural = (CRDS, 'customresourcedefinitions') if kind == 'crd-stream-error' else (KEX, 'kopfexamples')
            c.faults.append(Fault({'on': 'watch', 'plural': plural, 'do': 'stream', 'kind': 'error', 'code': 500, 'at': 0, 'nth': 0, 'count': 1}))
            c.break_watches(rkey=rkey)
            self.advance(0.5)
            if kind == 'crd-stream-error':
                c.add_resource(ResDef(*WIDGETS, 'Widget'))
            else:
                if c.edit(KEX, 'default', 'o0', lambda b: b.setdefault('spec', {}).update(f=4242)) is None:
                    c.create(KEX, 'default', 'o0', {'spec': {'f': 4242}})
            self.t_trigger = None      # the instant the ERROR reaches the client is found in the stream log
        self.advance(0.0)


def check(run, res, bound):
    sc, sim, c = run.sc, run.sim, run.cluster
    spec = sc['spec']
    op = sim.ops[run.current]
    calls = [x for x in sim.trace if x.get('k') == 'call' and x.get('inc') == run.current]
    startups = [x for x in calls if x['kind'] == 'startup']
    cleanups = [x for x in calls if x['kind'] == 'cleanup']
    reqs = [r for r in c.requests if r['client'] == run.current]
    n_startup = len([h for h in spec['handlers'] if h['kind'] == 'startup'])
    trig = sc['trigger']
    # when did the trigger reach the operator
    t_trig = run.t_trigger
    if trig in ('crd-stream-error', 'served-stream-error'):
        rkey = CRDS if trig == 'crd-stream-error' else KEX
        errs = [d[0] for w in c.all_watches if w.rkey == rkey and w.session.client_id == run.current for d, code in
                zip([d for d in w.delivered if d[1] == 'ERROR'], w.error_codes) if code != 410]
        t_trig = min(errs) if errs else None
    will_fail = startup_fails(spec)
    # the startup is over when every startup handler succeeded, or one of them failed for good
    t_startup_over = 0.0
    if n_startup:
        t_startup_over = None
        hs = {h['id']: h for h in spec['handlers'] if h['kind'] == 'startup'}
        oks = {x['hid']: x['t1'] for x in startups if x['outcome'] == 'ok'}
        failed = [x['t1'] for x in startups if x['outcome'] == 'perm' or (x['outcome'] == 'temp' and hs[x['hid']].get('retries') is not None
                                                                          and x['attempt'] + 1 >= hs[x['hid']]['retries'])]
        if failed:
            # (the activity notices an exhausted retry limit only when the retry is due: allow for the longest scripted delay)
            t_startup_over = max(x['t1'] for x in startups if x['t1'] is not None) + 1.0
        elif len(oks) == n_startup:
            t_startup_over = max(oks.values())
    during_startup = t_trig is not None and trig in ('stop', 'cancel') and (t_startup_over is None or t_trig <= t_startup_over + TOL)
    if will_fail and t_trig is not None and trig in ('stop', 'cancel') and (op.exited_at is None or t_trig <= op.exited_at + TOL):
        during_startup = True     # asked to stop before the failed startup made the run call return: either outcome is right
    # --- L1: nothing of the API before the startup is over
    ok_startups = [x for x in startups if x['outcome'] == 'ok']
    if n_startup and reqs:
        done_ids = {x['hid'] for x in ok_startups}
        last = max((x['seq1'] for x in ok_startups), default=None)
        first = min(r['seq'] for r in reqs)
        if len(done_ids) < n_startup or first < last:
            res.fail('C20/api-before-startup', f'the first API request came at t={min(r["t"] for r in reqs)} while the startup handlers had not all succeeded yet: '
                     f'{[(x["hid"], x["t0"], x["t1"], x["outcome"]) for x in startups]}')
    # --- L2: failed startup
    if will_fail and not during_startup:
        if reqs:
            res.fail('C20/api-after-failed-startup', f'a startup handler fails for good, yet {len(reqs)} API requests were made, the first at t={min(r["t"] for r in reqs)}')
        if op.ready_at is not None:
            res.fail('C20/ready-after-failed-startup', f'a startup handler fails for good, yet the ready flag was raised at t={op.ready_at}')
        if op.exit is None or op.exit[0] != 'exc':
            res.fail('C20/failed-startup-not-raised', f'a startup handler fails for good, yet the run call ended with {op.exit}')
    # --- L3: ready flag only after startup
    if op.ready_at is not None and startups:
        if len({x['hid'] for x in ok_startups}) < n_startup or op.ready_at < max(x['t1'] for x in ok_startups) - TOL:
            res.fail('C20/ready-before-startup', f'the ready flag was raised at t={op.ready_at} before every startup handler succeeded: '
                     f'{[(x["hid"], x["t0"], x["t1"], x["outcome"]) for x in startups]}')
    if not will_fail and not during_startup and op.ready_at is None and (t_trig is None or t_trig > bound_startup(spec) + TOL):
        res.fail('C20/never-ready', 'the startup succeeded, but the ready flag was never raised')
    # --- L4: the run call returns, in time, with the right outcome
    if t_trig is not None and not (will_fail and not during_startup):
        if op.exit is None:
            if trig == 'served-stream-error':
                res.known.append({'id': 'C20-Q-failed-watcher-does-not-stop-the-operator',
                                  'msg': f'the stream of the served resource failed with an unknown ERROR at t={t_trig}: its watcher ended, but the operator kept running '
                                         f'without it till t={sim.world.now}'})
            else:
                res.fail('C20/no-exit', f'{trig} at t={t_trig}: the run call has not returned by t={sim.world.now} (bound {bound:.1f}s)')
        else:
            if op.exited_at - t_trig > bound + TOL:
                res.fail('C20/exit-too-late', f'{trig} at t={t_trig}: the run call returned at t={op.exited_at}, later than the bound of {bound:.1f}s')
            want = {'stop': 'ok', 'cancel': 'cancelled'}.get(trig, 'exc')
            if op.exit[0] != want and not (trig == 'stop' and during_startup and op.exit[0] in ('ok', 'exc')) \
                    and not (will_fail and during_startup and op.exit[0] == 'exc'):      # (asked to go while the failed startup was returning)
                res.fail('C20/wrong-outcome', f'{trig} at t={t_trig}: the run call ended with {op.exit}, expected {want}')
            if want == 'exc' and op.exit[0] == 'exc' and op.exit[1] != 'WatchingError':
                res.fail('C20/failure-not-reraised', f'{trig} at t={t_trig}: the run call raised {op.exit}, not the stream\'s failure')
    if trig == 'none' and not will_fail and op.exit is not None:
        res.fail('C20/exit-without-reason', f'no trigger, yet the run call ended with {op.exit} at t={op.exited_at}')
    # --- L5: cleanup last
    if cleanups:
        t0 = min(x['t0'] for x in cleanups)
        s0 = min(x['seq'] for x in cleanups)
        for x in calls:
            if x['kind'] in ('daemon', 'timer', 'create', 'update', 'delete', 'resume', 'event', 'index') and x['seq'] < s0 and (x.get('seq1') is None or x['seq1'] > s0):
                msg = (f'the cleanup handler started at t={t0} while {x["kind"]} handler {x["hid"]} of {x.get("name")} '
                       f'(started at t={x["t0"]}) was still running (ended at {x["t1"]})')
                asked = x['kind'] != 'daemon' or (x.get('flag_set_at') is not None and x['flag_set_at'] <= t0 + TOL)
                # a daemon is let go by the exiting operator only after its own grace periods, counted from the exit at the earliest
                # (daemons.stop_daemon: flag, wait for the backoff, cancel, wait for the timeout, abandon); finding R is about
                # what is still running *after* that
                hd = next((h for h in spec['handlers'] if h['id'] == x['hid']), {})
                grace = (hd.get('cancellation_backoff') or 0) + (hd.get('cancellation_timeout') or 0)
                if asked and x['kind'] == 'daemon' and t_trig is not None and t0 < t_trig + grace - TOL:
                    res.fail('C20/cleanup-before-daemon-let-go', msg + f'; the operator was asked to stop at t={t_trig} and the daemon\'s '
                             f'cancellation backoff + timeout are {grace}s: it was neither waited for nor cancelled')
                elif asked:
                    res.known.append({'id': 'C20-R-cleanup-starts-while-handlers-still-run', 'msg': msg})
                else:
                    res.fail('C20/cleanup-before-daemons-asked-to-stop', msg + '; it was not even asked to stop')
            if x['kind'] not in ('cleanup', 'login') and x['seq'] > s0:
                res.fail('C20/handler-after-cleanup', f'{x["kind"]} handler {x["hid"]} started at t={x["t0"]}, after the cleanup began at t={t0}')
        for w in c.all_watches:
            if w.session.client_id == run.current and (w.closed_seq is None or w.closed_seq > s0):
                res.fail('C20/cleanup-before-streams-closed', f'the cleanup handler started at t={t0} while the stream of {w.rkey[2]}@{w.namespace} was still open (closed at {w.closed_at})')
        if sc['peering']:
            vers = [v for v in c.history if v['rkey'] == CPEER and v['seq'] < s0]
            if vers and (vers[-1]['body'].get('status') or {}).get(run.current) is not None:
                res.fail('C20/cleanup-before-peering-withdrawn', f'the cleanup handler started at t={t0} while the peering record was still there: {vers[-1]["body"].get("status")}')
        if not will_fail and t_trig is not None and any(x['t0'] < t_trig - TOL for x in cleanups):
            res.fail('C20/cleanup-before-stop', f'a cleanup handler ran at t={min(x["t0"] for x in cleanups)}, before the operator was asked to stop at t={t_trig}')
    n_cleanup = len([h for h in spec['handlers'] if h['kind'] == 'cleanup'])
    if trig == 'stop' and n_cleanup and not will_fail and not during_startup and op.exit is not None:
        if len({x['hid'] for x in cleanups if x['outcome'] == 'ok'}) < n_cleanup:
            res.fail('C20/cleanup-skipped', f'stopped by the flag at t={t_trig}, yet not every cleanup handler completed: {[(x["hid"], x["t0"], x["outcome"]) for x in cleanups]}')
    # --- L6: the peering record is withdrawn on a graceful exit
    if sc['peering'] and op.exit is not None and trig in ('stop',) and not during_startup and not will_fail:
        body = c.objects.get((CPEER, None, 'default')) or {}
        if (body.get('status') or {}).get(run.current) is not None:
            res.fail('C20/peering-record-left', f'after the graceful exit the peering record is still there: {body.get("status")}')
    # --- L7: nothing happens after the run call returned
    if op.exit is not None:
        late = [x for x in calls if x['t0'] > op.exited_at + TOL] + [r for r in reqs if r['t'] > op.exited_at + TOL]
        if late:
            res.fail('C20/activity-after-exit', f'the run call returned at t={op.exited_at}, yet {len(late)} handler calls/API requests of that process followed')
    # --- classification
    if t_trig is not None:
        inflight_d = any(x['kind'] == 'daemon' and x['t0'] <= t_trig and (x['t1'] is None or x['t1'] >= t_trig) for x in calls)
        inflight_h = any(x['kind'] in ('create', 'timer') and x['t0'] <= t_trig and (x['t1'] is None or x['t1'] > t_trig) for x in calls)
        if inflight_d and inflight_h:
            res.label('trigger-with-daemon-and-handler-in-flight')
        if during_startup:
            res.label('trigger-during-startup')
        if spec['settings'].get('queueing.worker_limit'):
            res.label('trigger-with-a-worker-limit')
        if any(x['kind'] == 'daemon' and x.get('flag_set_at') is not None and x['flag_set_at'] < t_trig - TOL and (x['t1'] is None or x['t1'] >= t_trig)
               for x in calls):
            res.label('trigger-while-a-daemon-is-being-stopped')
        res.label('trigger:' + trig)
        res.nontrivial = (inflight_d and inflight_h) or during_startup
    if will_fail:
        res.label('startup-fails')


def bound_startup(spec):
    return sum(sum((s.get('delay') or 0) for s in h['script']) + len(h['script']) * (h.get('duration') or 0) for h in spec['handlers'] if h['kind'] == 'startup')


def run_case(scenario):
    res = CaseResult()
    run = Run(scenario)
    bound = bound_for(scenario)
    try:
        try:
            if scenario['peering']:
                run.cluster.create(CPEER, None, 'default', {})
            run.run()
            run.trigger()
            run.advance(bound + 5.0)
            run.advance(10.0)
        except Livelock as e:
            res.fail('C20/livelock', str(e))
        check(run, res, bound)
        res.summary = cl.summarize(run, max_calls=30)
        res.summary['exit'] = run.sim.ops[run.current].exit
    finally:
        run.close()
    return res


def run_shard(ctx):
    n = ctx['examples'] or BUDGET[ctx['tier']]
    return explore(scenarios(), run_case, seed=ctx['seed'], max_examples=n, tier=ctx['tier'], known_ids=ctx['known_ids'])
