"""C13 — Peering: lower-priority operators pause, exactly the top one is active."""
import datetime

from hypothesis import strategies as st

from kopfsim import vclock
from kopfsim.cluster import ResDef
from kopfsim.sim import CPEER, KEX, NPEER, Sim
from kopfsim.world import Livelock
from runner.pbt import CaseResult, explore

ID = 'C13'
LEVEL = 'exploration'
RULE = ('several simulated operator processes (2-3, each on its own event loop in one virtual time) sharing one cluster-wide peering object: '
        'generated priorities (distinct and equal), lifetimes (3-60 s), API/stream latencies, and a generated timeline of starts, graceful '
        'exits, kills, environment-written records (higher/lower/equal priority; unknown fields, missing lifetime or lastseen, already dead) '
        'and their removal, with settle points (3 s after the last membership change and after the expiry of every record nobody renews) followed by a probe edit of a '
        'served object. Oracles: (P1) at every settle point an operator holds an open stream of the served resource, runs its daemons and '
        'handles the probe iff no other live record of higher or equal priority is in the peering object (so: exactly the top one among '
        'distinct priorities, also after the active one exited or was killed; nobody among equal top priorities); (P3) from its first '
        'keep-alive to its end a running operator\'s record is renewed before it expires, is gone after a graceful exit, and dead records '
        'are gone at settle points; (P4) within one operator process no creation/resume handler succeeds twice for one object and no update '
        'is handled twice, whatever the pauses. Non-trivial: a takeover after a kill or exit, an equal-priority conflict, or noisy records')
ASSUMPTIONS = [
    'all processes share one clock (no skew); API latency stays below 1 s, peering-stream latency below 1 s',
    'transitional windows (two operators active for one latency, or none for a lifetime after a kill) are inherent: P1 is asserted only at settle points',
    'lifetimes are whole seconds >= 3',
]
BUDGET = {'quick': 120, 'thorough': 1000}
TOL = 1e-6
NAMES = ['A', 'B', 'C']


def parse_iso(s):
    return (datetime.datetime.fromisoformat(s) - vclock.EPOCH).total_seconds() if s is not None else None


@st.composite
def scenarios(draw):
    n = draw(st.integers(2, 3))
    prios = draw(st.lists(st.sampled_from([0, 10, 10, 50, 100]), min_size=n, max_size=n))
    ops = [{'name': NAMES[i], 'priority': prios[i], 'lifetime': draw(st.sampled_from([3, 5, 8, 15, 30, 60]))} for i in range(n)]
    dts = st.sampled_from([0.0, 0.3, 1.0, 2.5, 7.0])
    who = st.sampled_from(NAMES[:n])
    acts = [
        st.builds(lambda w, dt: {'a': 'start', 'op': w, 'dt': dt}, who, dts),
        st.builds(lambda w, dt: {'a': 'start', 'op': w, 'dt': dt}, who, dts),
        st.builds(lambda w, dt: {'a': 'stop', 'op': w, 'dt': dt}, who, dts),
        st.builds(lambda w, dt: {'a': 'kill', 'op': w, 'dt': dt}, who, dts),
        st.builds(lambda p, l, how, dt: {'a': 'noise', 'id': 'ghost', 'priority': p, 'lifetime': l, 'how': how, 'dt': dt},
                  st.sampled_from([0, 10, 50, 100, 1000]), st.sampled_from([4, 20, 100000]),
                  st.sampled_from(['plain', 'extra-fields', 'no-lifetime', 'no-lastseen', 'dead']), dts),
        st.builds(lambda dt: {'a': 'unnoise', 'id': 'ghost', 'dt': dt}, dts),
        st.builds(lambda o, dt: {'a': 'edit', 'obj': o, 'dt': dt}, st.integers(0, 1), dts),
        st.just({'a': 'settle'}), st.just({'a': 'settle'}),
    ]
    peer_kind = draw(st.sampled_from(['cluster', 'cluster', 'namespaced']))
    if peer_kind == 'namespaced':
        acts.append(st.builds(lambda g, dt: {'a': 'ns_bounce', 'gap': g, 'dt': dt}, st.sampled_from([0.0, 0.5, 3.0]), dts))
    actions = [{'a': 'start', 'op': NAMES[0], 'dt': draw(dts)}, {'a': 'start', 'op': NAMES[1], 'dt': draw(dts)}]
    actions += draw(st.lists(st.one_of(*acts), min_size=2, max_size=10))
    if peer_kind == 'namespaced' and draw(st.integers(0, 2)) == 0:
        # a paused operator whose namespace comes and goes, and whose blocking peer leaves afterwards: it must take over
        order = sorted(range(n), key=lambda i: -prios[i])
        hi, lo = NAMES[order[0]], NAMES[order[-1]]
        actions = [{'a': 'start', 'op': hi, 'dt': draw(st.sampled_from([0.3, 1.0]))}, {'a': 'start', 'op': lo, 'dt': draw(st.sampled_from([1.0, 2.5, 7.0]))},
                   {'a': 'ns_bounce', 'gap': draw(st.sampled_from([0.0, 0.5, 3.0])), 'dt': draw(st.sampled_from([1.0, 2.5, 7.0]))},
                   {'a': draw(st.sampled_from(['stop', 'kill'])), 'op': hi, 'dt': draw(dts)}, {'a': 'settle'}] + actions[2:5]
    # (at most one bounce per case: the settle points and the renewal duty are reasoned about one re-creation at a time; namespaces that
    #  come and go faster than their watchers terminate are C19's subject - where this family led to the fix d198701)
    seen_bounce = False
    for a in list(actions):
        if a['a'] == 'ns_bounce':
            if seen_bounce:
                actions.remove(a)
            seen_bounce = True
    actions.append({'a': 'settle'})
    spec = {'handlers': [{'kind': 'event', 'id': 'ev'}, {'kind': 'create', 'id': 'c', 'duration': 0}, {'kind': 'update', 'id': 'u', 'duration': 0},
                         {'kind': 'resume', 'id': 'r', 'duration': 0},
                         {'kind': 'daemon', 'id': 'dm', 'behaviour': 'obey', 'exit_delay': 0, 'cancellation_backoff': 1.0, 'cancellation_timeout': 1.0}],
            'settings': {'watching.reconnect_backoff': 0.1, 'networking.error_backoffs': [0.1, 0.5]}}
    return {'seed': draw(st.integers(0, 9999)), 'ops': ops, 'spec': spec, 'actions': actions,
            'api_latency': draw(st.sampled_from([0.0, 0.0, 0.05, 0.4])), 'watch_latency': draw(st.sampled_from([0.0, 0.0, 0.1, 0.6])),
            'objects': draw(st.integers(1, 2)),
            # cluster-wide operators peer through a ClusterKopfPeering; operators that serve one namespace through a KopfPeering in it
            'peer_kind': peer_kind}


class Run:
    def __init__(self, sc):
        self.sc = sc
        self.sim = Sim(resources=[ResDef('kopf.dev', 'v1', 'kopfexamples', 'KopfExample'),
                                  ResDef('kopf.dev', 'v1', 'clusterkopfpeerings', 'ClusterKopfPeering', namespaced=False),
                                  ResDef('kopf.dev', 'v1', 'kopfpeerings', 'KopfPeering')], seed=sc.get('seed', 0))
        self.c = self.sim.cluster
        # the peering object: the cluster-wide kind for cluster-wide operators, the namespaced kind for operators serving one namespace
        self.namespaced = sc.get('peer_kind') == 'namespaced'
        self.pk = (NPEER, 'default') if self.namespaced else (CPEER, None)
        self.c.create(*self.pk, 'default', {})
        for i in range(sc['objects']):
            self.c.create(KEX, 'default', f'o{i}', {'spec': {'f': 0}})
        if sc.get('api_latency'):
            self.c.api_latency = lambda req: sc['api_latency'] if 'patch' in req['classes'] else 0.0
        if sc.get('watch_latency'):
            self.c.watch_latency = lambda w, ev: sc['watch_latency'] if w.rkey == self.pk[0] else 0.0
        self.conf = {o['name']: o for o in sc['ops']}
        self.inc = {}            # op name -> current incarnation name
        self.count = {}
        self.lives = []          # dict(name(incarnation), op, t_start, t_end, how)
        self.settles = []
        self.t_change = 0.0
        self.n = 0
        self.probes = []
        self.bounces = []        # (t_deleted, t_recreated) of the served namespace

    def running(self, op):
        name = self.inc.get(op)
        return name is not None and self.sim.ops[name].alive

    def advance(self, dt):
        self.sim.run_for(dt)

    def do(self, act):
        a = act['a']
        now = self.sim.world.now
        if a == 'start':
            if not self.running(act['op']):
                k = self.count[act['op']] = self.count.get(act['op'], 0) + 1
                name = f'{act["op"]}{k}'
                conf = self.conf[act['op']]
                spec = dict(self.sc['spec'])
                spec['settings'] = dict(spec['settings'], **{'peering.lifetime': conf['lifetime']})
                self.sim.start(name, spec, standalone=False, peering_name='default', priority=conf['priority'],
                               **({'clusterwide': False, 'namespaces': ['default']} if self.namespaced else {}))
                self.inc[act['op']] = name
                self.lives.append({'name': name, 'op': act['op'], 't_start': now, 't_end': None, 'how': None})
                self.t_change = now
        elif a in ('stop', 'kill'):
            if self.running(act['op']):
                name = self.inc[act['op']]
                life = next(l for l in self.lives if l['name'] == name)
                if a == 'kill':
                    self.sim.kill(name)
                    life.update(t_end=now, how='kill')
                else:
                    life['t_stop'] = now
                    self.sim.stop(name)
                    self.advance(20.0)
                    if self.sim.ops[name].alive:
                        life.update(t_end=self.sim.world.now, how='stop-hung')
                        self.sim.kill(name)
                    else:
                        life.update(t_end=self.sim.ops[name].exited_at, how='stop')
                self.t_change = self.sim.world.now
        elif a == 'noise':
            rec = {'priority': act['priority'], 'lifetime': act['lifetime'], 'lastseen': vclock.iso(now)}
            if act['how'] == 'extra-fields':
                rec.update(foo='bar', nested={'x': 1})
            elif act['how'] == 'no-lifetime':
                rec.pop('lifetime')
            elif act['how'] == 'no-lastseen':
                rec.pop('lastseen')
            elif act['how'] == 'dead':
                rec['lastseen'] = vclock.iso(now - 1000.0)
                rec['lifetime'] = 10
            self.c.edit(*self.pk, 'default', lambda b: b.setdefault('status', {}).update({act['id']: rec}))
            self.t_change = now
        elif a == 'unnoise':
            self.c.edit(*self.pk, 'default', lambda b: (b.get('status') or {}).pop(act['id'], None))
            self.t_change = now
        elif a == 'edit':
            self.n += 1
            self.c.edit(KEX, 'default', f'o{act["obj"] % self.sc["objects"]}', lambda b: b['spec'].update(f=self.n))
        elif a == 'ns_bounce':
            # the served namespace is deleted with everything in it and re-created (with a fresh peering object and fresh objects)
            if self.namespaced:
                self.c.remove_namespace('default')
                self.advance(act.get('gap', 0.0))
                self.c.add_namespace('default')
                self.c.create(*self.pk, 'default', {})
                for i in range(self.sc['objects']):
                    self.c.create(KEX, 'default', f'o{i}', {'spec': {'f': 0}})
                # the operators terminate the watchers/keep-alives of the namespace's previous life first (up to exit_timeout = 2 s),
                # then start over: announce themselves, see each other, stop the daemons they had started meanwhile
                self.bounces.append((now, self.sim.world.now))
                self.t_change = self.sim.world.now + 6.0
        elif a == 'settle':
            # settle: 3 s after the last membership change, and 3 s after the expiry of every record that nobody renews
            # (a killed operator's, an environment-written one) unless it outlives the scenario
            self.advance(max(0.0, self.t_change + 3.0 - self.sim.world.now))
            for _ in range(6):
                now = self.sim.world.now
                status = (self.c.objects[(*self.pk, 'default')].get('status') or {})
                mine = {self.inc[op] for op in self.inc if self.running(op)}
                soon = []
                for i, r in status.items():
                    if i in mine or not isinstance(r, dict) or r.get('lastseen') is None:
                        continue
                    deadline = parse_iso(r['lastseen']) + int(r.get('lifetime', 60))
                    if now - 3.0 < deadline < now + 1000.0:
                        soon.append(deadline)
                if not soon:
                    break
                self.advance(max(soon) + 3.0 - now)
            self.n += 1
            t = self.sim.world.now
            status = dict((self.c.objects[(*self.pk, 'default')].get('status') or {}))
            self.c.edit(KEX, 'default', 'o0', lambda b: b['spec'].update(f=self.n, probe=self.n))
            self.advance(2.5)
            self.settles.append({'t': t, 'probe': self.n, 'status': status,
                                 'running': {op: self.inc[op] for op in self.inc if self.running(op)},
                                 'open': sorted({w.session.client_id for w in self.c.watches if w.rkey == KEX}),
                                 't_after': self.sim.world.now})
        else:
            raise ValueError(a)
        if act.get('dt'):
            self.advance(act['dt'])

    def run(self):
        for act in self.sc['actions']:
            self.do(act)

    def close(self):
        self.sim.close()


def live(rec, t):
    lastseen = parse_iso(rec.get('lastseen'))
    if lastseen is None:
        return True
    return lastseen + int(rec.get('lifetime', 60)) > t


def check(run, res):
    sc, sim, c = run.sc, run.sim, run.c
    calls = [x for x in sim.trace if x.get('k') == 'call']
    takeover = conflict = noisy = False
    prev_active = None
    for s in run.settles:
        t = s['t']
        expected = {}
        for op, name in s['running'].items():
            mine = run.conf[op]['priority']
            blockers = [(i, r) for i, r in s['status'].items() if i != name and isinstance(r, dict) and live(r, t) and int(r.get('priority', 0)) >= mine]
            expected[name] = not blockers
            if any(int(r.get('priority', 0)) == mine for i, r in blockers):
                conflict = True
        if any(i == 'ghost' for i in s['status']):
            noisy = True
        for name, active in expected.items():
            has_stream = name in s['open']
            if has_stream != active:
                res.fail('C13/wrong-activity', f'at t={t} operator {name} (priority {run.conf[name[0]]["priority"]}) {"holds" if has_stream else "holds no"} stream of the served '
                         f'resource, but the peering object {s["status"]} says it must be {"active" if active else "paused"}')
            handled = [x for x in calls if x['inc'] == name and x['hid'] in ('u', 'c') and (x.get('view') or {}).get('spec', {}).get('probe') == s['probe'] and x['outcome'] == 'ok'
                       and t - TOL <= x['t0'] < s['t_after'] - TOL]
            if active and not handled:
                res.fail('C13/probe-not-handled', f'at t={t} operator {name} must be active ({s["status"]}), but did not handle the change made then')
            if not active and handled:
                res.fail('C13/probe-handled-while-paused', f'at t={t} operator {name} must be paused ({s["status"]}), yet it handled the change made then')
            # (instances of objects that were wiped out with their namespace are orphans: C09's listed finding B, not peering's matter)
            gone = {v['uid'] for v in c.history if v['rkey'] == KEX and v['type'] == 'DELETED' and v['t'] <= t + TOL}
            daemons = [x for x in calls if x['inc'] == name and x['kind'] == 'daemon' and x['t0'] <= t + 2.0 and (x['t1'] is None or x['t1'] > t + 2.0)
                       and x['uid'] not in gone]
            if active and len({x['uid'] for x in daemons}) < sc['objects']:
                res.fail('C13/daemons-not-running', f'at t={t + 2.0} operator {name} is active, but runs daemons only for {len(daemons)} of {sc["objects"]} objects')
            if not active and daemons:
                res.fail('C13/daemons-running-while-paused', f'at t={t + 2.0} operator {name} must be paused, yet its daemons run for {[x["name"] for x in daemons]}')
        # the global reading: distinct priorities, everybody sees everybody
        prios = [run.conf[op]['priority'] for op in s['running']]
        ghosts = [r for i, r in s['status'].items() if i not in s['running'].values() and isinstance(r, dict) and live(r, t)]
        if s['running'] and len(set(prios)) == len(prios) and not ghosts:
            top = max(s['running'], key=lambda op: run.conf[op]['priority'])
            act = [n for n in s['running'].values() if n in s['open']]
            if act != [s['running'][top]]:
                res.fail('C13/not-exactly-the-top-one', f'at t={t} running operators {s["running"]} with priorities {prios}: active are {act}, expected exactly {s["running"][top]}; '
                         f'peering object: {s["status"]}')
        # dead records are gone
        if s['running']:
            # (a record is cleaned by whoever processes the next peering event after it expired: at the latest the next keep-alive)
            slack = max(run.conf[op]['lifetime'] for op in s['running']) + 2.0
            dead = {i: r for i, r in s['status'].items() if isinstance(r, dict) and not live(r, t - slack)}
            if dead:
                res.fail('C13/dead-records-left', f'at t={t} the peering object still holds records that expired more than {slack}s (a keep-alive period of the running operators) ago: {dead}')
        active_now = sorted(n for n, a in expected.items() if a)
        if prev_active is not None and active_now and active_now != prev_active and prev_active and prev_active[0] not in s['running'].values():
            takeover = True
        prev_active = active_now
    # --- P3: keep-alives
    vers = [v for v in c.history if v['rkey'] == run.pk[0]]
    for life in run.lives:
        name = life['name']
        op = life['op']
        lifetime = run.conf[op]['lifetime']
        t_end = life.get('t_stop', life['t_end']) if life['t_end'] is not None else sim.world.now
        t_exit = life['t_end'] if life['t_end'] is not None else sim.world.now
        mine = [(v['t'], (v['body'].get('status') or {}).get(name)) for v in vers if v['writer'] == name]
        seen = [(t, r) for t, r in mine if isinstance(r, dict)]
        for (t1, r1), (t2, r2) in zip(seen, seen[1:] + [(t_end, None)]):
            deadline = parse_iso(r1['lastseen']) + int(r1['lifetime'])
            if any(t1 - TOL <= b1 and b0 <= t2 + TOL for (b0, b1) in [(x0, x1 + 8.0) for (x0, x1) in run.bounces]):
                continue     # (the record vanished with its namespace; the renewal duty starts over once the operator serves the new one)
            if deadline <= t2 - TOL and t2 <= t_end + TOL:
                res.fail('C13/record-expired-while-running', f'{name} (lifetime {lifetime}s) wrote its record at t={t1} (valid till {deadline}), and renewed it only at t={t2}'
                         if r2 is not None else f'{name} (lifetime {lifetime}s) wrote its record last at t={t1} (valid till {deadline}) though it ran till t={t_end}')
        if life['how'] == 'stop':
            final = (c.objects[(*run.pk, 'default')].get('status') or {}).get(name)
            later = [v for v in vers if v['t'] >= t_end - TOL]
            t_end = t_exit
            if final is not None and not any((v['body'].get('status') or {}).get(name) is None for v in later):
                res.fail('C13/record-left-after-exit', f'{name} exited gracefully at t={t_end}, but its record stayed in the peering object: {final}')
        if life['how'] == 'stop-hung':
            res.fail('C13/exit-hung', f'{name} did not exit within 20 s of the stop request')
    # --- P4: nothing twice within one process
    seen = {}
    for x in calls:
        if x['outcome'] != 'ok' or x['hid'] not in ('c', 'r', 'u'):
            continue
        key = (x['inc'], x['uid'], x['hid']) + ((((x.get('view') or {}).get('spec') or {}).get('f'),) if x['hid'] == 'u' else ())
        seen.setdefault(key, []).append(x)
    for key, xs in seen.items():
        if len(xs) > 1:
            msg = f'operator {key[0]}: handler {key[2]} succeeded {len(xs)} times for {key[1]}' + (f' at spec.f={key[3]}' if len(key) > 3 else '') + \
                  f' (at t={[x["t0"] for x in xs]}, on versions {[x["rv"] for x in xs]})'
            # the listed finding: the repeated run saw a version older than the one its own first patch produced, because the pause
            # closed the stream before that version arrived (processing resumed after the consistency timeout on the stale view)
            stale = True
            for a, b in zip(xs, xs[1:]):
                patched = [r for r in c.requests if r['client'] == key[0] and r['name'] == a['name'] and 'patch' in r['classes'] and r['seq'] > a['seq']
                           and r['seq'] < b['seq'] and r.get('result_rv') is not None]
                closed = [w for w in c.all_watches if w.session.client_id == key[0] and w.rkey == KEX and w.closed_at is not None and a['t0'] - TOL <= w.closed_at <= b['t0'] + TOL]
                if not (patched and closed and int(b['rv']) < int(patched[0]['result_rv'])):
                    stale = False
            # the same listed finding seen from the active peer: the paused operator's belated cycle (after its consistency timeout, on
            # its stale view) wrote its outdated last-handled state onto the object, and the active operator handled the "change" again
            if not stale:
                def paused_writer(v):
                    w = v['writer']
                    if w in ('env', key[0]):
                        return False
                    mine = [x for x in c.all_watches if x.session.client_id == w and x.rkey == KEX]
                    return bool(mine) and all(x.closed_at is not None and x.closed_at <= v['t'] + TOL for x in mine)
                stale = all(any(v['rkey'] == KEX and v['uid'] == key[1] and a['seq'] < v['seq'] < b['seq'] and paused_writer(v) for v in c.history)
                            for a, b in zip(xs, xs[1:]))
                if stale:
                    msg += ' - provoked by the belated write of a paused peer on its stale view'
            if stale:
                res.known.append({'id': 'C13-T-pause-drops-own-patch-event-then-handler-reruns-on-stale-view', 'msg': msg})
            else:
                res.fail('C13/handled-twice', msg)
    if takeover:
        res.label('takeover')
    if conflict:
        res.label('equal-priority-conflict')
    if noisy:
        res.label('noisy-records')
    res.nontrivial = takeover or conflict or noisy


def run_case(scenario):
    res = CaseResult()
    run = Run(scenario)
    try:
        try:
            run.run()
        except Livelock as e:
            res.fail('C13/livelock', str(e))
        check(run, res)
        res.summary = {'lives': run.lives, 'settles': [{k: v for k, v in s.items()} for s in run.settles][-4:], 'virtual_time': run.sim.world.now}
    finally:
        run.close()
    return res


def run_shard(ctx):
    n = ctx['examples'] or BUDGET[ctx['tier']]
    return explore(scenarios(), run_case, seed=ctx['seed'], max_examples=n, tier=ctx['tier'], known_ids=ctx['known_ids'])
