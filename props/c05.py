"""C05 — Each event maps to exactly one cause; handler kinds are mutually exclusive."""
import itertools

from hypothesis import strategies as st

from props import c02, closedloop as cl
from kopfsim.sim import KEX
from kopfsim.world import Livelock
from runner.pbt import CaseResult, explore

ID = 'C05'
LEVEL = 'exploration'
RULE = ('(a) bounded-exhaustive product of event type x deletion mark x own finalizer x foreign finalizers x stored '
        'last-handled {none, equal, different} x first-sight flag x handler kind, compared with the decision list of the '
        'property statement (every shard enumerates the whole finite space: exhaustive_pure_space=true); (b) '
        'Hypothesis-generated closed-loop histories whose every change-handler invocation is judged against the body it '
        'was given. Non-trivial (b): a deletion that races an open create/update cycle, or a first-sight (listed) object '
        'that carries unfinished progress; distinct by canonical scenario JSON')
ASSUMPTIONS = c02.ASSUMPTIONS[:3] + [
    'the reference classifier is written from the property statement (gone > released > deletion > creation > resume > no-op > update)',
    'essence for the reference = body minus status and system metadata, keeping labels and ordinary annotations',
]
BUDGET = {'quick': 120, 'thorough': 1000}
FIN = cl.FINALIZER


# ------------------------------------------------------------------------------------------ pure, exhaustive
def reference_reason(event_type, deleting, own_fin, old_state, initial):
    if event_type == 'DELETED':
        return 'gone'
    if deleting and not own_fin:
        return 'free'
    if deleting:
        return 'delete'
    if old_state == 'none':
        return 'create'
    if old_state == 'equal' and initial:
        return 'resume'
    if old_state == 'equal':
        return 'noop'
    return 'update'


def reference_selected(kind, reason, initial, deleting, deleted_opt):
    """Which handler kinds run for a cause (property statement + docs/handlers.rst on resuming)."""
    if reason in ('gone', 'free', 'noop'):
        return False
    if kind in ('create', 'update', 'delete'):
        return kind == reason
    if kind == 'resume':
        effective_initial = initial and reason != 'create'
        return effective_initial and (not deleting or bool(deleted_opt))
    raise ValueError(kind)


def exhaustive_pure():
    """Enumerates the finite space completely; returns (count, failures)."""
    import logging
    import kopf
    from kopf._cogs.structs import bodies, diffs, patches, references
    from kopf._core.intents import causes, handlers as khandlers, registries
    from kopf._core.reactor import processing  # noqa: F401  (import check only)
    settings = kopf.OperatorSettings()
    resource = references.Resource('kopf.dev', 'v1', 'kopfexamples', namespaced=True)
    failures, count = [], 0
    reg = registries.ChangingRegistry()

    def fn(**_):
        pass
    kinds = [('create', dict(reason=causes.Reason.CREATE, initial=None, deleted=None, requires_finalizer=None)),
             ('update', dict(reason=causes.Reason.UPDATE, initial=None, deleted=None, requires_finalizer=None)),
             ('delete', dict(reason=causes.Reason.DELETE, initial=None, deleted=None, requires_finalizer=True)),
             ('resume', dict(reason=None, initial=True, deleted=None, requires_finalizer=None)),
             ('resume+deleted', dict(reason=None, initial=True, deleted=True, requires_finalizer=None)),
             ('resume+notdeleted', dict(reason=None, initial=True, deleted=False, requires_finalizer=None))]     # the explicit opt-out
    for name, kw in kinds:
        reg.append(khandlers.ChangingHandler(
            fn=fn, id=name, param=None, errors=None, timeout=None, retries=None, backoff=None,
            selector=references.Selector('kopfexamples'), labels=None, annotations=None, when=None,
            field=None, value=None, old=None, new=None, field_needs_change=None, **kw))
    space = itertools.product([None, 'ADDED', 'MODIFIED', 'DELETED'], [False, True], [False, True],
                              [(), ('other/fin',), ('other/fin', 'zzz/fin')], ['none', 'equal', 'different'], [False, True],
                              [False, True], [False, True])
    for event_type, deleting, own_fin, foreign, old_state, initial, fin_first, empty in space:
        count += 1
        fins = list(foreign)
        if own_fin:
            fins = [FIN] + fins if fin_first else fins + [FIN]
        meta = {'name': 'x', 'namespace': 'ns', 'uid': 'u', 'resourceVersion': '5'}
        if fins:
            meta['finalizers'] = fins
        if deleting:
            meta['deletionTimestamp'] = '2030-01-01T00:00:00Z'
        raw = {'apiVersion': 'kopf.dev/v1', 'kind': 'KopfExample', 'metadata': meta, 'spec': {'f': 1}, 'status': {'s': 1}}
        if empty:
            del raw['spec']      # an object whose essence is empty ({}), e.g. a bare marker resource
        body = bodies.Body(raw)
        new = settings.persistence.diffbase_storage.build(body=body)
        old = None if old_state == 'none' else dict(new) if old_state == 'equal' else {'spec': {'f': 0}}
        diff = diffs.diff(old, new)
        cause = causes.detect_changing_cause(
            finalizer=FIN, raw_event={'type': event_type, 'object': raw}, resource=resource, indices={},
            logger=logging.getLogger('x'), patch=patches.Patch(), body=body, old=old, new=new, diff=diff,
            memo=None, initial=initial)
        want = reference_reason(event_type, deleting, own_fin, old_state, initial)
        combo = dict(type=event_type, deleting=deleting, own_finalizer=own_fin, foreign=list(foreign), stored=old_state, first_sight=initial, empty_essence=empty)
        if str(cause.reason) != want:
            failures.append(('C05/pure-reason', f'{combo}: classified as {cause.reason}, the statement says {want}'))
            continue
        selected = {h.id for h in reg.get_handlers(cause=cause)} if cause.reason in causes.HANDLER_REASONS else set()
        for name, kw in kinds:
            kind = name.split('+')[0]
            exp = reference_selected(kind, want, initial, deleting, kw['deleted'])
            if (name in selected) != exp:
                failures.append(('C05/pure-selection', f'{combo}: reason {want}: handler kind {name} selected={name in selected}, expected {exp}'))
    return count, failures


# ------------------------------------------------------------------------------------------ closed loop
def check(run, res):
    sc = run.sc
    spec = sc['spec']
    pcfg, dcfg = spec.get('progress_storage'), spec.get('diffbase_storage')
    prefixes = cl.storage_prefixes(pcfg, dcfg)
    table = c02.handler_table(spec)
    sim = run.sim
    listed = {}
    for r in sim.cluster.requests:
        for uid, _ in r.get('listed') or []:
            listed.setdefault(r['client'], set()).add(uid)
    deleted_rv = {(h['uid'], str(h['rv'])) for h in sim.cluster.history if h['rkey'] == KEX and h['type'] == 'DELETED'}
    for c in sim.trace:
        if c.get('k') != 'call' or c['kind'] not in ('create', 'update', 'delete', 'resume', 'sub'):
            continue
        view = c['view']
        meta = view.get('metadata') or {}
        deleting = meta.get('deletionTimestamp') is not None
        own = FIN in (meta.get('finalizers') or [])
        h = table.get(c['hid'], {})
        top = h
        while top.get('kind') == 'sub':      # sub-handlers (of any depth) belong to the cause of their top-level ancestor
            top = table[top['parent']]
        kind = top.get('kind')
        where = f'{c["hid"]} ({kind}) at t={c["t0"]} by {c["inc"]} on {c["name"]} rv={c["rv"]} reason={c["reason"]}'
        if (c['uid'], str(c['rv'])) in deleted_rv and sim.cluster.quirk_final_patch_bumps_rv:
            res.fail('C05/handler-on-gone-object', f'{where}: invoked for the DELETED event of the object')
        if kind in ('create', 'update') and deleting:
            res.fail('C05/create-update-on-deleting', f'{where}: the object is marked for deletion')
        if kind == 'resume' and deleting and not top.get('deleted'):
            res.fail('C05/resume-on-deleting', f'{where}: resume handler without deleted=True on an object marked for deletion')
        if kind == 'delete' and not (deleting and own):
            res.fail('C05/delete-handler-misplaced', f'{where}: deletionTimestamp={meta.get("deletionTimestamp")} finalizers={meta.get("finalizers")}')
        if deleting and not own:
            res.fail('C05/handler-on-released-object', f'{where}: the object is released (no framework finalizer)')
        stored = cl.read_last_handled(view, dcfg)
        ess = cl.essence(view, prefixes)
        if deleting and own:
            want = 'delete'
        elif deleting:
            want = 'free'
        elif stored is None:
            want = 'create'
        elif _norm(stored) == _norm(ess):
            want = 'resume'      # a handler ran, so it cannot be a no-op: it must be the first-sight resume
        else:
            want = 'update'
        if c['reason'] != want:
            res.fail('C05/reason-kwarg', f'{where}: the reference classifies its view as {want} (stored={stored}, essence={ess})')
        if want == 'resume':
            if kind != 'resume':
                res.fail('C05/handler-on-noop', f'{where}: nothing essential changed, yet a {kind} handler ran')
            if c['uid'] not in listed.get(c['inc'], set()):
                res.fail('C05/resume-not-first-sight', f'{where}: unchanged object that this incarnation never listed')
        if kind in ('create', 'update', 'delete') and c['reason'] != kind:
            res.fail('C05/kind-vs-reason', f'{where}: a {kind} handler ran for reason {c["reason"]}')
    # classification
    versions = {}
    for hst in sim.cluster.history:
        if hst['rkey'] == KEX:
            versions.setdefault(hst['uid'], []).append(hst)
    racing = False
    for uid, vers in versions.items():
        for v in vers:
            if v['writer'] == 'env' and v['body']['metadata'].get('deletionTimestamp') and v['type'] == 'MODIFIED':
                prev = [p for p in vers if p['seq'] < v['seq']]
                if prev and cl.raw_progress_keys(prev[-1]['body'], pcfg, list(table)):
                    racing = True
    stale_first = False
    for r in sim.cluster.requests:
        if r.get('listed'):
            for uid, rv in r['listed']:
                for v in versions.get(uid, []):
                    if str(v['rv']) == str(rv) and cl.raw_progress_keys(v['body'], pcfg, list(table)):
                        stale_first = True
    if racing:
        res.label('deletion-races-open-cycle')
    if stale_first:
        res.label('first-sight-with-stale-progress')
    released_first = any(c for c in [1] if any(
        v['body']['metadata'].get('deletionTimestamp') and FIN not in (v['body']['metadata'].get('finalizers') or [])
        and any(str(v['rv']) == str(rv) and uid == v['uid'] for r in sim.cluster.requests for uid, rv in (r.get('listed') or []))
        for vers in versions.values() for v in vers))
    if released_first:
        res.label('released-at-first-sight')
    res.nontrivial = racing or stale_first or released_first
    kinds = {c['reason'] for c in sim.trace if c.get('k') == 'call' and c.get('reason')}
    res.label(*[f'reason:{k}' for k in sorted(kinds)])


def _norm(v):
    if isinstance(v, dict):
        return {k: _norm(x) for k, x in v.items() if x is not None}
    return v


@st.composite
def scenarios(draw):
    sc = draw(c02.scenarios())
    sc['cluster']['quirk_deleted_keeps_finalizer'] = draw(st.booleans())
    dts = cl.times([5.0], 40.0)
    extra = draw(st.lists(cl.env_actions(dts, n_objects=2, with_finalizers=True), max_size=4))
    pos = draw(st.integers(0, len(sc['actions'])))
    sc['actions'] = sc['actions'][:pos] + extra + sc['actions'][pos:]
    # Aim at the interesting classes: keep cycles open (a temporary failure first), then delete or restart inside them.
    if draw(st.booleans()):
        for h in sc['spec']['handlers']:
            if h['kind'] in ('create', 'update') and draw(st.booleans()):
                h['script'] = [{'o': 'temp', 'delay': draw(st.sampled_from([3.0, 20.0]))}] + list(h.get('script') or [])
        creates = [i for i, a in enumerate(sc['actions']) if a['a'] == 'create']
        at = (creates[0] + 1) if creates else len(sc['actions'])
        what = draw(st.sampled_from(['delete', 'restart', 'both']))
        ins = []
        obj = sc['actions'][creates[0]]['obj'] if creates else 0
        if what in ('restart', 'both'):
            ins.append({'a': 'restart', 'how': draw(st.sampled_from(['kill', 'stop'])), 'down': draw(st.sampled_from([0.0, 1.0, 10.0])), 'dt': draw(st.sampled_from([0.0, 1.0]))})
        if what in ('delete', 'both'):
            ins.append({'a': 'delete', 'obj': obj, 'dt': draw(dts)})
        sc['actions'] = sc['actions'][:at] + ins + sc['actions'][at:]
    if draw(st.integers(0, 5)) == 0:
        # A released object at first sight: only a foreign finalizer holds the deleted object when the operator (re)starts.
        if not any(h['kind'] == 'resume' for h in sc['spec']['handlers']):
            sc['spec']['handlers'].append({'kind': 'resume', 'id': 'r9', 'script': [], 'errors': None, 'backoff': 3.0, 'duration': 0})
        for h in sc['spec']['handlers']:
            if h['kind'] == 'resume':
                h['deleted'] = True
        sc['actions'] = [{'a': 'create', 'obj': 0, 'v': 1, 'dt': draw(st.sampled_from([0.0, 3.0]))},
                         {'a': 'add_finalizer', 'obj': 0, 'n': 'f/a', 'front': draw(st.booleans()), 'dt': draw(st.sampled_from([0.0, 3.0]))},
                         {'a': 'delete', 'obj': 0, 'dt': draw(st.sampled_from([0.0, 10.0]))},
                         {'a': 'restart', 'how': draw(st.sampled_from(['kill', 'stop'])), 'down': 1.0, 'dt': 5.0}] + sc['actions'][:3]
    return sc


def run_case(scenario):
    res = CaseResult()
    if scenario.get('pure'):
        _, failures = exhaustive_pure()
        for sig, msg in failures[:10]:
            res.fail(sig, msg)
        return res
    run = cl.Run(scenario)
    try:
        try:
            run.run()
            run.quiesce(c02.bound_for(scenario))
        except Livelock as e:
            res.fail('C05/livelock', str(e))
        check(run, res)
        res.summary = cl.summarize(run)
    finally:
        run.close()
    return res


def run_shard(ctx):
    n = ctx['examples'] or BUDGET[ctx['tier']]
    out = explore(scenarios(), run_case, seed=ctx['seed'], max_examples=n, tier=ctx['tier'], known_ids=ctx['known_ids'])
    if ctx['shard'] == 0:
        count, failures = exhaustive_pure()
        out['extra'] = {'exhaustive_pure_space': True, 'pure_combinations': count}
        out['evaluations'] += count
        out['classes']['pure-combinations'] = count
        if failures:
            sig, msg = failures[0]
            out['violations'].append({'scenario': {'pure': True, 'note': msg},
                                      'violations': [{'sig': s, 'msg': m} for s, m in failures[:5]], 'sig': sig})
    return out
