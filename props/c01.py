"""C01 — Per-object event processing is serial, ordered and lossless."""
import asyncio

from hypothesis import strategies as st

from props import c02, closedloop as cl
from kopfsim.sim import KEX, ResDef, Sim
from kopfsim.world import Livelock
from runner.pbt import CaseResult, explore

ID = 'C01'
LEVEL = 'exploration'
RULE = ('(CMP) the real queueing.watcher() + watch stack against the API model with a recording processor: Hypothesis generates '
        '1-4 objects, <=40 events with inter-arrival gaps and processing durations from a palette around idle_timeout '
        '(incl. idle+-1e-10 relative to the previous event\'s end), worker_limit, exit_timeout, stream breaks and a watcher '
        'cancellation instant; (CL) the full operator with an on.event recorder next to patching change handlers. Oracle: '
        'per-object processed sequence is a gap-free prefix of the delivery log (the whole log unless cancelled), intervals '
        'are disjoint, at most worker_limit processors run at once, and no event waits while its worker or a slot is free. '
        'Non-trivial: an event delivered within 1 microsecond of a worker\'s idle expiry, an event that waited for a slot, or '
        'a cancellation with a non-empty backlog; distinct by scenario JSON')
ASSUMPTIONS = [
    'schedule knobs are arrival times and durations only; ready callbacks inside the loop keep asyncio FIFO order',
    'the watch stream delivers per-connection FIFO (as Kubernetes does); after a cancellation unprocessed tail events are allowed',
    'the API-server model and virtual time of kopfsim',
]
BUDGET = {'quick': 300, 'thorough': 4000}
EPS = 1e-10


@st.composite
def cmp_scenarios(draw):
    idle = draw(st.sampled_from([0.5, 5.0, 2.0]))
    limit = draw(st.sampled_from([None, None, 1, 2, 3]))
    nobj = draw(st.integers(1, 4))
    gaps = st.one_of(st.sampled_from([0.0, 0.0, 0.01, -0.05, -0.3, -1.0, -5.0, idle - EPS, idle, idle + EPS, idle - 1e-6, idle + 1e-6, idle / 2, 2 * idle, idle - 1e-3]),
                     st.floats(0, 3 * idle).map(lambda x: round(x, 3)))
    durs = st.sampled_from([0.0, 0.0, 0.1, idle, idle - EPS, idle + EPS, 2 * idle, 0.5])
    events = draw(st.lists(st.fixed_dictionaries({'obj': st.integers(0, nobj - 1), 'gap': gaps, 'dur': durs}), min_size=1, max_size=40))
    if draw(st.integers(0, 3)) == 0:
        # slot contention: more objects than slots get an event at once, one of them is slow, the others finish and their workers
        # retire one by one while the slow one still runs: every freed slot must go to a waiting object at once
        limit = draw(st.sampled_from([2, 2, 3]))
        nobj = limit + draw(st.integers(1, 2))
        slow = draw(st.integers(0, nobj - 1))
        first = [{'obj': i, 'gap': 0.0, 'dur': draw(st.sampled_from([2.5 * idle, 4 * idle, 6 * idle])) if i == slow else draw(st.sampled_from([0.0, 0.1, idle / 2]))}
                 for i in range(nobj)]
        events = first + [dict(e, obj=e['obj'] % nobj) for e in events[:draw(st.integers(0, 10))]]
    breaks = draw(st.lists(st.floats(0, 30).map(lambda x: round(x, 2)), max_size=3))
    # some objects are deleted after their last change, and the stream may end (resumably) right after any event - a deletion included
    deletes = draw(st.lists(st.fixed_dictionaries({'obj': st.integers(0, 3), 'gap': st.sampled_from([0.0, 0.1, 1.0]),
                                                   'break_after': st.sampled_from([None, None, 0.0, 0.05])}), max_size=2))
    # a cancellation at an arbitrary instant, or right after the arrival of one of the events (a backlog is likely then)
    cancel = draw(st.one_of(st.none(), st.none(), st.floats(0, 40).map(lambda x: round(x, 3)),
                            st.builds(lambda k, eps: {'after_event': k, 'eps': eps}, st.integers(0, 39), st.sampled_from([0.0, 1e-6, 0.01, 0.2]))))
    return {'mode': 'cmp', 'idle': idle, 'limit': limit, 'nobj': nobj, 'exit_timeout': draw(st.sampled_from([0.5, 2.0, 10.0, 10.0])),
            'events': events, 'breaks': breaks, 'cancel': cancel, 'list_dur': draw(st.sampled_from([0.0, 0.0, 0.3])), 'deletes': deletes,
            # how the bytes of the watch stream are cut into network reads (a line in pieces, its newline in a read of its own)
            'chunking': draw(st.sampled_from([None, None, 'newline-apart', 'halves', 'thirds']))}


@st.composite
def scenarios(draw):
    if draw(st.integers(0, 5)) == 0:
        sc = draw(c02.scenarios())
        sc['mode'] = 'cl'
        sc['spec']['handlers'].append({'kind': 'event', 'id': 'ev', 'script': [], 'duration': draw(st.sampled_from([0, 0, 0.3]))})
        sc['spec']['settings']['queueing.idle_timeout'] = draw(st.sampled_from([0.5, 5.0]))
        return sc
    return draw(cmp_scenarios())


# ------------------------------------------------------------------------------------------ component level
def worker_lives(processed, idle, horizon, exclude=None):
    """[start, end) of every per-object worker as implied by what was processed: from its first event until idle_timeout after the
    end of its last one (a later event within that time is served by the same worker)."""
    lives = []
    for uid, pl in processed.items():
        if uid == exclude or not pl:
            continue
        start, end = pl[0]['t0'], None
        for a, b in zip(pl, pl[1:]):
            a_end = a['t1'] if a['t1'] is not None else horizon
            if b['t0'] > a_end + idle + 1e-6:
                lives.append((start, a_end + idle))
                start = b['t0']
        last_end = pl[-1]['t1'] if pl[-1]['t1'] is not None else horizon
        lives.append((start, last_end + idle))
    return lives


def run_cmp(sc, res):
    import kopf
    from kopf._cogs.clients import auth
    from kopf._cogs.structs import credentials, references
    from kopf._core.reactor import queueing
    from kopfsim.cluster import FakeSession
    sim = Sim(resources=[ResDef('kopf.dev', 'v1', 'kopfexamples', 'KopfExample')], seed=1)
    try:
        world, cluster = sim.world, sim.cluster
        cluster.chunking = sc.get('chunking')
        if sc.get('chunking'):
            res.label('stream-lines-cut-into-several-reads')
        names = [f'o{i}' for i in range(sc['nobj'])]
        for n in names:
            cluster.create(KEX, 'default', n, {'spec': {'n': 0}})
        uid_of = {n: cluster.objects[(KEX, 'default', n)]['metadata']['uid'] for n in names}
        settings = kopf.OperatorSettings()
        settings.queueing.idle_timeout = sc['idle']
        settings.queueing.worker_limit = sc['limit']
        settings.queueing.exit_timeout = sc['exit_timeout']
        settings.watching.reconnect_backoff = 0.1
        resource = references.Resource('kopf.dev', 'v1', 'kopfexamples', namespaced=True, kind='KopfExample', singular='kopfexample',
                                       verbs=frozenset(['list', 'watch', 'patch']))
        # absolute schedule: gap is counted from the expected end of the object's previous event
        prev_end = {n: 0.0 for n in names}
        prev_arrival = {}
        durations = {}       # (uid, rv-ordinal) -> duration; keyed by the per-object edit counter
        plan = []
        counter = {n: 0 for n in names}
        t0 = 1.0
        for e in sc['events']:
            n = names[e['obj']]
            t = max(prev_end[n] + e['gap'], prev_arrival.get(n, t0), t0)     # a negative gap: arrives while the previous one is processed
            prev_arrival[n] = t
            counter[n] += 1
            plan.append((t, n, counter[n], e['dur']))
            prev_end[n] = max(t, prev_end[n]) + e['dur']
        log = []             # processed: dict(uid, type, rv, t0, t1)
        dur_by_val = {(n, k): d for (_, n, k, d) in plan}

        async def processor(*, raw_event, stream_pressure=None, resource_indexed=None, operator_indexed=None, consistency_time=None):
            body = raw_event['object']
            name = body['metadata']['name']
            rec = dict(uid=body['metadata']['uid'], name=name, type=raw_event['type'], rv=body['metadata']['resourceVersion'],
                       t0=world.now, t1=None, seq=world.tick())
            log.append(rec)
            d = dur_by_val.get((name, body.get('spec', {}).get('n')), 0.0) if raw_event['type'] is not None else sc['list_dur']
            if d:
                await asyncio.sleep(d)
            rec['t1'] = world.now
            return None
        loop = world.spawn('W')
        state = {}

        async def main():
            session = FakeSession(cluster, client_id='W')
            auth.vault_var.set(credentials.Vault({'id': credentials.AiohttpSession(server='http://fake', aiohttp_session=session)}))
            state['task'] = asyncio.current_task()
            try:
                await queueing.watcher(namespace=None, settings=settings, resource=resource, processor=processor)
            except asyncio.CancelledError:
                state['end'] = ('cancelled', world.now)
            except BaseException as e:
                state['end'] = (f'raised {type(e).__name__}: {e}', world.now)
            else:
                state['end'] = ('returned', world.now)
        task = loop.create_task(main())
        for (t, n, k, d) in plan:
            world.at(t, lambda n=n, k=k: cluster.edit(KEX, 'default', n, lambda b: b['spec'].update(n=k)))
        for t in sc['breaks']:
            world.at(t0 + t, lambda: cluster.break_watches(rkey=KEX))
        for dl in sc.get('deletes') or []:
            n = names[dl['obj'] % len(names)]
            t_del = max([p[0] for p in plan if p[1] == n] + [t0]) + dl['gap']
            world.at(t_del, lambda n=n: cluster.delete(KEX, 'default', n))
            if dl['break_after'] is not None:
                world.at(t_del + dl['break_after'], lambda: cluster.break_watches(rkey=KEX))
        t_cancel = None
        if isinstance(sc['cancel'], dict):
            t_cancel = plan[sc['cancel']['after_event'] % len(plan)][0] + sc['cancel']['eps']
            world.at(t_cancel, lambda: loop.call_soon(task.cancel))
        elif sc['cancel'] is not None:
            t_cancel = t0 + sc['cancel']
            world.at(t_cancel, lambda: loop.call_soon(task.cancel))
        horizon = max([p[0] for p in plan] + [t0]) + sum(e['dur'] for e in sc['events']) + 3 * sc['idle'] + sc['exit_timeout'] + 20.0
        try:
            world.run(horizon)
        except Livelock as e:
            res.fail('C01/livelock', str(e))
            return
        # ---- the delivery log, in the order the watcher consumed it
        delivered = {}       # uid -> [(t, type, rv, tick)]
        events = []
        for r in cluster.requests:
            if r['client'] == 'W' and r.get('listed') is not None and r['t_done'] is not None and r['outcome'] == 200:
                for uid, rv in r['listed']:
                    events.append((r['seq_applied'], r['t_done'], None, rv, uid))
        for w in cluster.all_watches:
            if w.session.client_id == 'W':
                for (t, typ, rv, uid, tick) in w.delivered:
                    if typ in ('ADDED', 'MODIFIED', 'DELETED'):
                        events.append((tick, t, typ, rv, uid))
        events.sort(key=lambda x: x[0])
        for tick, t, typ, rv, uid in events:
            delivered.setdefault(uid, []).append((t, typ, rv, tick))
        ended = state.get('end')
        if ended and ended[0].startswith('raised'):
            res.fail('C01/watcher-raised', f'{ended}')
        if t_cancel is None and ended is not None:
            res.fail('C01/watcher-ended', f'the watcher ended on its own: {ended}')
        processed = {}
        for rec in log:
            processed.setdefault(rec['uid'], []).append(rec)
        waited_for_slot = False
        near_expiry = False
        backlog_at_cancel = False
        # (0) no event of the cluster's history is processed twice: a (type, version) the API emitted once reaches the processor at most
        #     once, whatever the client does to get its stream back (a list entry - type None - may legitimately repeat a version)
        for uid, pl in processed.items():
            seen_events = {}
            for r in pl:
                if r['type'] is not None:
                    seen_events.setdefault((r['type'], r['rv']), []).append(r['t0'])
            twice = {k: v for k, v in seen_events.items() if len(v) > 1}
            if twice:
                res.fail('C01/processed-twice', f'{uid}: the event(s) {sorted(twice.items())[:3]} were processed more than once (reconnects at {sc["breaks"]}, deletions {sc.get("deletes")})')
            if any(r['type'] == 'DELETED' for r in pl):
                res.label('deletion-processed')
        for uid, dl in delivered.items():
            pl = processed.get(uid, [])
            got = [(r['type'], r['rv']) for r in pl]
            want = [(typ, rv) for (_, typ, rv, _) in dl]
            # (1) prefix, no gap/duplicate/reordering
            if got != want[:len(got)]:
                res.fail('C01/order-or-loss', f'{uid}: processed {got[:12]} but the stream delivered {want[:12]} (cancel={t_cancel}, idle={sc["idle"]}, limit={sc["limit"]})')
                continue
            if len(got) < len(want):
                missing = dl[len(got):]
                if t_cancel is None:
                    res.fail('C01/lost-events', f'{uid}: {len(missing)} delivered events were never processed, first at t={missing[0][0]} '
                             f'{missing[0][1:3]}; processed {len(got)} of {len(want)} (idle={sc["idle"]}, limit={sc["limit"]}, no cancellation)')
                else:
                    # After a cancellation the backlog is depleted for up to exit_timeout: whatever was delivered before the
                    # cancellation and fits into that grace period (no slot contention) must still be processed.
                    backlog_at_cancel = True
                    busy_until = max([r['t1'] if r['t1'] is not None else horizon for r in pl] + [0.0])
                    work = max(0.0, busy_until - t_cancel)
                    name = next(n for n, u in uid_of.items() if u == uid)
                    for (t, typ, rv, _) in missing:
                        if t >= t_cancel - 1e-6:
                            break
                        body = next((h['body'] for h in cluster.history if h['uid'] == uid and str(h['rv']) == str(rv)), None)
                        work += dur_by_val.get((name, (body or {}).get('spec', {}).get('n')), 0.0) if typ is not None else sc['list_dur']
                        if work < sc['exit_timeout'] - 1e-3 and sc['limit'] is None:
                            res.fail('C01/backlog-not-depleted', f'{uid}: event {typ} rv={rv} delivered at {t} (before the cancellation at {t_cancel}) was '
                                     f'never processed although the remaining work ({work:.3f}s) fits into exit_timeout={sc["exit_timeout"]}')
                            break
            # (2) serial
            for a, b in zip(pl, pl[1:]):
                if a['t1'] is None or b['t0'] < a['t1'] - 1e-12:
                    res.fail('C01/overlap', f'{uid}: event {b["rv"]} started at {b["t0"]} before {a["rv"]} ended ({a["t1"]})')
        # (3) worker limit
        marks = []
        for r in log:
            marks.append((r['t0'], r['seq'], 1))
            marks.append((r['t1'] if r['t1'] is not None else horizon, r['seq'] + 0.5 if r['t1'] == r['t0'] else 0, -1))
        if sc['limit'] is not None:
            running = {}
            for r in sorted(log, key=lambda r: r['seq']):
                conc = [o for o in log if o is not r and o['t0'] <= r['t0'] and (o['t1'] is None or o['t1'] > r['t0']) and o['seq'] < r['seq']
                        and o['uid'] != r['uid']]
                if len({o['uid'] for o in conc}) + 1 > sc['limit']:
                    res.fail('C01/worker-limit', f'{len(conc) + 1} processors at t={r["t0"]} with worker_limit={sc["limit"]}')
                    break
        # (4) work conservation
        idle = sc['idle']
        for uid, dl in delivered.items():
            pl = processed.get(uid, [])
            for i, rec in enumerate(pl):
                if i >= len(dl):
                    break        # (processed more than was delivered: reported above as order-or-loss)
                t_d = dl[i][0]
                prev_end = pl[i - 1]['t1'] if i else None
                expected = max(t_d, prev_end) if prev_end is not None else t_d
                if t_cancel is not None and expected >= t_cancel - 1e-9:
                    continue
                if prev_end is not None:
                    d = t_d - (prev_end + idle)
                    if abs(d) <= 1e-6:
                        near_expiry = True
                        res.label('near-expiry:' + ('before' if d < 0 else 'at-or-after'))
                if rec['t0'] > expected + 1e-9:
                    # legitimate only if all slots were taken by other objects' workers (alive = processing or idling)
                    others = 0
                    for ouid, opl in processed.items():
                        if ouid == uid:
                            continue
                        alive = any(o['t0'] <= expected + 1e-9 and (o['t1'] is None or o['t1'] + idle >= expected - 1e-6) for o in opl)
                        if alive:
                            others += 1
                    own_alive = prev_end is not None and prev_end + idle > expected + 1e-6
                    if sc['limit'] is None or others < sc['limit'] or own_alive:
                        res.fail('C01/needless-wait', f'{uid}: event {rec["rv"]} delivered at {t_d} (previous ended {prev_end}) started only at {rec["t0"]}; '
                                 f'{others} other workers alive, limit={sc["limit"]}, idle={idle}')
                    else:
                        waited_for_slot = True
                        # ...and it waits no longer than until a slot is freed: at no instant before it started were fewer than
                        # `limit` workers of other objects alive (a worker lives from its first event until idle_timeout after its last)
                        lives = worker_lives(processed, idle, horizon, exclude=uid)
                        for (_, end) in sorted(lives, key=lambda x: x[1]):
                            probe = end + 5e-4
                            if not (expected < probe < rec['t0'] - 1e-3) or (t_cancel is not None and probe >= t_cancel):
                                continue
                            alive = sum(1 for (a, b) in lives if a <= probe < b)
                            if alive < sc['limit']:
                                res.fail('C01/slot-free-but-waiting', f'{uid}: event {rec["rv"]} delivered at {t_d} had to wait for a slot (limit={sc["limit"]}), but from '
                                         f't={end} on only {alive} workers of other objects were alive and it still started only at {rec["t0"]} (idle={idle})')
                                break
        if waited_for_slot:
            res.label('waited-for-slot')
        if backlog_at_cancel:
            res.label('cancel-with-backlog')
        if sc['breaks']:
            res.label('reconnects')
        res.label(f'limit:{sc["limit"]}')
        res.nontrivial = near_expiry or waited_for_slot or backlog_at_cancel
        res.summary = {'processed': len(log), 'delivered': sum(len(v) for v in delivered.values()), 'end': ended}
    finally:
        sim.close()


# ------------------------------------------------------------------------------------------ closed loop
def run_cl(sc, res):
    run = cl.Run(sc)
    try:
        try:
            run.run()
            run.quiesce(c02.bound_for(sc))
        except Livelock as e:
            res.fail('C01/livelock', str(e))
        sim = run.sim
        for inc in run.incarnations:
            name = inc['name']
            events = []
            for r in sim.cluster.requests:
                if r['client'] == name and r.get('listed') is not None and r['plural'] == 'kopfexamples' and r['outcome'] == 200 and r['t_done'] is not None:
                    for uid, rv in r['listed']:
                        events.append((r['seq_applied'], None, rv, uid))
            for w in sim.cluster.all_watches:
                if w.session.client_id == name and w.rkey == KEX:
                    for (t, typ, rv, uid, tick) in w.delivered:
                        if typ in ('ADDED', 'MODIFIED', 'DELETED'):
                            events.append((tick, typ, rv, uid))
            events.sort(key=lambda x: x[0])
            per_uid = {}
            for _, typ, rv, uid in events:
                per_uid.setdefault(uid, []).append((typ, rv))
            seen = {}
            for c in sim.trace:
                if c.get('k') == 'call' and c['inc'] == name and c['kind'] == 'event':
                    seen.setdefault(c['uid'], []).append((c.get('type'), c['rv']))
            gracefully = inc['how'] in (None,)
            for uid, want in per_uid.items():
                got = seen.get(uid, [])
                if got != want[:len(got)]:
                    res.fail('C01/CL-order-or-loss', f'{name} {uid}: on.event saw {got[:10]}, the API delivered {want[:10]}')
                elif len(got) < len(want) and gracefully:
                    res.fail('C01/CL-lost-events', f'{name} {uid}: on.event saw {len(got)} of {len(want)} delivered events; missing {want[len(got):][:5]}')
        res.label('closed-loop')
        res.nontrivial = len(run.incarnations) > 1
        res.summary = cl.summarize(run, max_calls=10)
    finally:
        run.close()


def run_case(sc):
    res = CaseResult()
    if sc.get('mode') == 'cl':
        run_cl(sc, res)
    else:
        run_cmp(sc, res)
    return res


def run_shard(ctx):
    n = ctx['examples'] or BUDGET[ctx['tier']]
    return explore(scenarios(), run_case, seed=ctx['seed'], max_examples=n, tier=ctx['tier'], known_ids=ctx['known_ids'],
                   shrink_keys=('events', 'actions'))
