"""C03 — Level-triggered convergence across changes, restarts and downtime."""
import json

from hypothesis import strategies as st

from props import c02, closedloop as cl
from kopfsim.sim import KEX
from kopfsim.world import Livelock
from runner.pbt import CaseResult, explore

ID = 'C03'
LEVEL = 'exploration'
RULE = ('closed-loop histories (C02\'s generator plus downtimes with edits while no operator runs, kills before/after an '
        'applied write, watch latency), ended by a quiescence phase (operator running, failures exhausted, time advanced by a '
        'bound computed from the generated delays); oracle Q1-Q6 at quiescence against an independent essence function. '
        'Non-trivial: a restart/kill inside an open cycle, or a downtime containing >=1 essential edit; distinct by scenario JSON')
ASSUMPTIONS = c02.ASSUMPTIONS[:4] + [
    'bounded liveness: "eventually" = within sum(generated delays/backoffs) + 120 virtual seconds after the last action, then a 90 s silent window',
    'no API faults other than kills (C12 covers those); handlers have finitely many scripted failures',
]
BUDGET = {'quick': 120, 'thorough': 1000}
FINDING_A = 'C03-A-midcycle-edit-not-seen-by-finished-handler'
FINDING_L = 'C03-L-stale-view-purge-leaves-records'
FINDING_M = 'C03-M-revert-to-handled-state-leaves-records'
FINDING_C = 'C03-C-write-lands-on-same-named-successor'
SILENT = 90.0


@st.composite
def scenarios(draw):
    sc = draw(c02.scenarios())
    dts = cl.times([5.0], 40.0)
    if draw(st.booleans()):
        edits = draw(st.lists(cl.env_actions(st.sampled_from([0.0, 1.0]), n_objects=2, with_delete=draw(st.booleans())), min_size=1, max_size=4))
        act = {'a': 'downtime', 'how': draw(st.sampled_from(['stop', 'kill'])), 'edits': edits, 'down': draw(dts), 'dt': draw(dts)}
        sc['actions'].insert(draw(st.integers(0, len(sc['actions']))), act)
    if draw(st.booleans()):
        # open a cycle and disturb it
        for h in sc['spec']['handlers']:
            if draw(st.booleans()):
                h['script'] = [{'o': 'temp', 'delay': draw(st.sampled_from([3.0, 20.0]))}] + list(h.get('script') or [])
        sc['actions'].insert(min(1, len(sc['actions'])), draw(cl.process_actions(dts)))
    return sc


def _norm(v):
    if isinstance(v, dict):
        return {k: _norm(x) for k, x in v.items() if x is not None}
    return v


def check(run, res, t_silent):
    sc = run.sc
    spec = sc['spec']
    pcfg, dcfg = spec.get('progress_storage'), spec.get('diffbase_storage')
    prefixes = cl.storage_prefixes(pcfg, dcfg)
    table = c02.handler_table(spec)
    ids = list(table)
    sim = run.sim
    calls = [c for c in sim.trace if c.get('k') == 'call' and c['kind'] in c02.CHANGE_KINDS]
    versions = {}
    for h in sim.cluster.history:
        if h['rkey'] == KEX:
            versions.setdefault(h['uid'], []).append(h)

    # Q1: silence
    late_reqs = [r for r in sim.cluster.requests if r['t'] >= t_silent and 'patch' in r['classes']]
    late_calls = [c for c in calls if c['t0'] >= t_silent]
    if late_reqs:
        r = late_reqs[0]
        res.fail('C03/Q1-still-writing', f'{len(late_reqs)} operator writes in the silent window, e.g. t={r["t"]} {r["client"]} {r["name"]} {str(r["payload"])[:200]}')
    if late_calls:
        c = late_calls[0]
        res.fail('C03/Q1-still-handling', f'{len(late_calls)} handler invocations in the silent window, e.g. {c["hid"]} on {c["name"]} at t={c["t0"]}')

    # Q5': old/new/diff given to update handlers are the stored and the current essence of the view
    for c in calls:
        if c['kind'] == 'update' and c['reason'] == 'update':
            stored = cl.read_last_handled(c['view'], dcfg)
            ess = cl.essence(c['view'], prefixes)
            if _norm(c.get('old')) != _norm(stored) or _norm(c.get('new')) != _norm(ess):
                res.fail('C03/Q5-old-new', f'{c["hid"]} on {c["name"]} rv={c["rv"]}: old={c.get("old")} (stored last-handled {stored}), new={c.get("new")} (essence of its view {ess})')

    for key, body in sim.cluster.objects.items():
        if key[0] != KEX:
            continue
        uid, name = body['metadata']['uid'], body['metadata']['name']
        vers = versions.get(uid, [])
        # Q6
        if body['metadata'].get('deletionTimestamp'):
            res.fail('C03/Q6-deletion-stuck', f'{name} is still there {sim.world.now - cl_time(body):.0f}s after it was marked for deletion; finalizers={body["metadata"].get("finalizers")}')
            continue
        final = _norm(cl.essence(body, prefixes))
        stored = cl.read_last_handled(body, dcfg)
        selected_kinds = {h['kind'] for h in spec['handlers']}
        any_changing = bool(selected_kinds & {'create', 'update', 'delete', 'resume'})
        # Q3
        left = cl.raw_progress_keys(body, pcfg, ids)
        if left:
            msg = f'{name}: progress records remain at quiescence: {left}'
            if is_finding_l(left, uid, vers, calls, pcfg, ids, spec['settings']['persistence.consistency_timeout']):
                res.known.append({'id': FINDING_L, 'msg': msg})
            elif _norm(stored) == final and is_finding_m(left, uid, vers, calls, dcfg, prefixes):
                res.known.append({'id': FINDING_M, 'msg': msg})
            elif is_finding_c(uid, name, sim, calls) and not any(c['uid'] == uid and c['hid'].split('/')[0] in {_top_of(k) for k in left} for c in calls):
                # the records are those of a handler that was never invoked for this uid: a write computed for the same-named
                # predecessor planted them here (finding C), and nobody owns them
                res.known.append({'id': FINDING_C, 'msg': msg})
            else:
                res.fail('C03/Q3-progress-left', msg)
        # Q2
        if any_changing and _norm(stored) != final:
            res.fail('C03/Q2-last-handled', f'{name}: last-handled {stored} != final essence {final}')
        # Q4: every handler selected for the outstanding change finished against the final state
        ess_versions = [(v, _norm(cl.essence(v['body'], prefixes))) for v in vers]
        last_change = None
        for i, (v, e) in enumerate(ess_versions):
            if i == 0 or e != ess_versions[i - 1][1]:
                if v['writer'] == 'env':
                    last_change = v
        if last_change is None:
            continue
        before_change = [v for v in vers if v['seq'] < last_change['seq']]
        if before_change and _norm(cl.read_last_handled(before_change[-1]['body'], dcfg)) == final:
            continue        # the last edit went back to the already handled state: nothing is outstanding
        # which cause handled it: create if no closure (last-handled) existed before the closure that covers it
        closed_before = [v for v in vers if v['seq'] < last_change['seq'] and cl.read_last_handled(v['body'], dcfg) is not None]
        kind = 'update' if closed_before else 'create'
        for hid, h in table.items():
            if h['kind'] != kind:
                continue
            mine = [c for c in calls if c['uid'] == uid and c['hid'] == hid and c02._is_final(c, h)]
            good = [c for c in mine if int(c['rv']) >= last_change['rv'] and _norm(cl.essence(c['view'], prefixes)) == final]
            if good:
                continue
            stale = [c for c in mine if int(c['rv']) < last_change['rv']]
            msg = (f'{name}: {kind} handler {hid} never completed against the final state {final} '
                   f'(last essential change rv={last_change["rv"]} at t={last_change["t"]}); its finishing invocations saw '
                   f'{[(c["rv"], _norm(cl.essence(c["view"], prefixes)).get("spec")) for c in mine]}; last-handled={stored}')
            if stale and _norm(stored) == final and is_finding_a(stale[-1], last_change, vers, dcfg, prefixes):
                res.known.append({'id': FINDING_A, 'msg': msg})
            elif is_finding_c(uid, name, sim, calls):
                res.known.append({'id': FINDING_C, 'msg': msg})
            else:
                res.fail('C03/Q4-not-handled-against-final-state', msg)

    # classification
    open_restart = False
    for inc in run.incarnations:
        if inc['t_end'] is None:
            continue
        for uid, vers in versions.items():
            before = [v for v in vers if v['t'] <= inc['t_end']]
            if before and cl.raw_progress_keys(before[-1]['body'], pcfg, ids):
                open_restart = True
    downtime_edit = False
    for (t0, t1) in getattr(run, 'downtimes', []):
        for uid, vers in versions.items():
            for i, v in enumerate(vers):
                if v['writer'] == 'env' and t0 <= v['t'] <= t1 and i > 0 and \
                        _norm(cl.essence(v['body'], prefixes)) != _norm(cl.essence(vers[i - 1]['body'], prefixes)):
                    downtime_edit = True
    if open_restart:
        res.label('restart-inside-open-cycle')
    if downtime_edit:
        res.label('downtime-with-essential-edit')
    if any(i['how'] == 'kill' for i in run.incarnations):
        res.label('kill')
    res.nontrivial = open_restart or downtime_edit
    if res.nontrivial:
        res.label('nontrivial')


def cl_time(body):
    from kopfsim import vclock
    return vclock.from_iso(body['metadata']['deletionTimestamp'])


def is_finding_a(stale_call, last_change, vers, dcfg, prefixes):
    """Known finding A: the essential edit arrived inside the still-open cycle in which the handler had
    already finished (no closure between the handler's view and the edit); the cycle then closed on the newer state."""
    between = [v for v in vers if int(stale_call['rv']) <= v['rv'] < last_change['rv']]
    lh = [cl.read_last_handled(v['body'], dcfg) for v in between]
    # no closure (change of last-handled) between the handler's view and the edit
    return all(x == lh[0] for x in lh) if lh else True


def _family_calls(key, uid, calls):
    hid = key[1].replace('.', '/') if key[0] == 'ann' else key[1]
    hid = hid.split('/')[-2] + '/' + hid.split('/')[-1] if False else hid
    top = hid.split('/')[-1] if key[0] == 'ann' and '/' in key[1] and not hid.count('/') else hid
    # annotation keys look like "<prefix>/<id with dots>": recover the handler id
    if key[0] == 'ann':
        name = key[1].split('/', 1)[1]
        top = name.split('.')[0]
    else:
        top = key[1].split('/')[0]
    return [c for c in calls if c['uid'] == uid and c['hid'].split('/')[0] == top]


def is_finding_l(left, uid, vers, calls, pcfg, ids, timeout):
    """Known finding L: some handling of this object ran on a view older than the operator's own earlier write,
    because the echo of that write was not delivered within the consistency timeout (so consistency was assumed).
    Records written by the not-yet-seen request are then invisible to later purges."""
    for c in calls:
        if c['uid'] != uid:
            continue
        for w in vers:
            if w['writer'] == c['inc'] and w['rv'] > int(c['rv']) and w['t'] + timeout - 1e-6 <= c['t0']:
                return True
    return False


def _top_of(key):
    """The top-level handler id of a raw progress key ('ann', '<prefix>/<id with dots>') or ('status', '<id with slashes>')."""
    if key[0] == 'ann':
        return key[1].split('/', 1)[1].split('.')[0]
    return key[1].split('/')[0]


def is_finding_c(uid, name, sim, calls):
    """Known finding C (listed for C08, seen here through its consequence): a write computed by a handling cycle of a
    predecessor object of the same name (another uid, deleted meanwhile) was applied to this object, because merge-patches are
    addressed by name only. Such a write can plant a finished progress record of the predecessor's handler on the successor."""
    for r in sim.cluster.requests:
        if r['client'] == 'env' or 'patch' not in r['classes'] or not r.get('applied') or r.get('target_uid') != uid or r['name'] != name:
            continue
        born = min(v['seq'] for v in sim.cluster.history if v['uid'] == uid)
        if r['seq'] < born:
            return True          # sent before this object existed at all: it was computed for the predecessor
        text = json.dumps(r['payload'])
        # the write carries a last-handled state that is a state of the predecessor and never was a state of this object
        lh = None
        if isinstance(r['payload'], dict):
            for k, v in ((r['payload'].get('metadata') or {}).get('annotations') or {}).items():
                if k.endswith('/last-handled-configuration') and v:
                    lh = json.loads(v)
            v = ((r['payload'].get('status') or {}).get('kopf') or {}).get('last-handled-configuration') if isinstance(r['payload'].get('status'), dict) else None
            if v:
                lh = json.loads(v)
        if lh is not None:
            mine = [_norm(cl.essence(v['body'])).get('spec') for v in sim.cluster.history if v['uid'] == uid]
            others = [_norm(cl.essence(v['body'])).get('spec') for v in sim.cluster.history if v['uid'] != uid and v['name'] == name]
            if lh.get('spec') not in mine and lh.get('spec') in others:
                return True
        for c in calls:
            # the write carries the record of a handler invocation that belonged to the predecessor and ended right before it
            if c['name'] == name and c['inc'] == r['client'] and c['uid'] != uid and c.get('seq1') is not None and 0 < r['seq'] - c['seq1'] <= 12 \
                    and c['hid'].replace('/', '.') in text.replace('/', '.'):
                return True
    return False


def is_finding_m(left, uid, vers, calls, dcfg, prefixes):
    """Known finding M: an external edit took the object back to its last-handled state while a cycle was open;
    the cycle is silently abandoned (no-op) and its progress records are never purged."""
    for key in left:
        fam = _family_calls(key, uid, calls) or [c for c in calls if c['uid'] == uid]   # (records of not-yet-started siblings)
        if not fam:
            return False
        last = fam[-1]
        later_env = [v for v in vers if v['writer'] == 'env' and v['rv'] > int(last['rv'])
                     and _norm(cl.essence(v['body'], prefixes)) == _norm(cl.read_last_handled(v['body'], dcfg))]
        if not later_env:
            return False
        if any(c['uid'] == uid and int(c['rv']) >= later_env[-1]['rv'] for c in calls):
            return False
    return True


def run_case(scenario):
    res = CaseResult()
    run = cl.Run(scenario)
    try:
        try:
            run.run()
            run.quiesce(c02.bound_for(scenario) * 2 + 120.0)
            t_silent = run.sim.world.now
            run.advance(SILENT)
        except Livelock as e:
            res.fail('C03/livelock', str(e))
            t_silent = run.sim.world.now
        check(run, res, t_silent)
        res.summary = cl.summarize(run)
    finally:
        run.close()
    return res


def run_shard(ctx):
    n = ctx['examples'] or BUDGET[ctx['tier']]
    return explore(scenarios(), run_case, seed=ctx['seed'], max_examples=n, tier=ctx['tier'], known_ids=ctx['known_ids'])
