"""C06 — The finalizer is never released early, always released eventually."""
from hypothesis import strategies as st

from props import c02, closedloop as cl
from kopfsim.sim import KEX
from kopfsim.world import Livelock
from runner.pbt import CaseResult, explore

ID = 'C06'
LEVEL = 'exploration'
RULE = ('closed-loop histories with mandatory/optional delete handlers (failure scripts), daemons/timers with the stop behaviours '
        '(obey / needs cancellation / ignores both / exits on its own) and cancellation backoff/timeout, label-filtered handlers '
        '(toggling makes them start/stop requiring the object), external add/remove/reorder of foreign finalizers, deletions at any '
        'time, API latency (so that foreign writes slip between the operator\'s read and its JSON-patch: HTTP 422) and restarts. '
        'Oracle F1-F4 over the server-side finalizer list at every version vs the handler/daemon run log. Non-trivial: a 422 on a '
        'finalizer patch, a foreign-finalizer edit while the operator holds the object, or a deletion while a delete handler is '
        'waiting for its retry; distinct by scenario JSON')
ASSUMPTIONS = c02.ASSUMPTIONS[:3] + [
    'daemons that ignore both the stop flag and cancellation are generated with a cancellation_timeout (otherwise the finalizer legitimately stays forever)',
    'bounded liveness: "eventually" = within the computed bound (sum of scripted delays, cancellation backoffs/timeouts, polling) after the last action',
    'matching is by a label criterion only (C15 covers the criteria themselves)',
]
BUDGET = {'quick': 120, 'thorough': 1000}
FIN = cl.FINALIZER
FINDING_O = 'C06-O-carried-over-release-ignores-new-match'


def is_finding_o(sim, inc, uid, h, vers, v):
    """Known finding O: the release was decided when the handler did not match, its JSON-patch hit a conflict (422),
    and the carried-over removal was applied on the next cycle although the object had started to match meanwhile."""
    for r in sim.cluster.requests:
        if r['client'] == inc and r.get('target_uid') == uid and 'jsonpatch' in r['classes'] and r['outcome'] == 422 and r['seq'] < v['seq']:
            ops = r['payload'] or []
            removes = any(o.get('op') in ('remove', 'replace') and o.get('path', '').startswith('/metadata/finalizers') for o in ops)
            tested = next((o.get('value') for o in ops if o.get('op') == 'test'), None)
            body = next((x['body'] for x in vers if str(x['rv']) == str(tested)), None)
            if removes and body is not None and not matches(h, body):
                return True
    return False


@st.composite
def scenarios(draw):
    delays = st.sampled_from([0.0, 0.5, 3.0, 7.0])
    flt = st.sampled_from([None, None, {'on': 'yes'}])
    handlers = []
    for i in range(draw(st.integers(0, 2))):
        handlers.append({'kind': 'delete', 'id': f'd{i}', 'optional': draw(st.sampled_from([None, None, True])), 'labels': draw(flt),
                         'script': draw(cl.outcome_scripts(delays, max_len=2)), 'errors': draw(st.sampled_from([None, 'permanent', 'ignored'])),
                         'backoff': draw(st.sampled_from([0.5, 3.0])), 'duration': draw(st.sampled_from([0, 0, 1.0]))})
    if handlers and draw(st.integers(0, 2)) == 0:
        # a deletion handler that does its work through sub-handlers, some of which fail for a while
        hd = handlers[0]
        hd['script'] = []
        hd['subs'] = [{'id': f's{j}', 'script': draw(cl.outcome_scripts(delays, max_len=2)), 'backoff': draw(st.sampled_from([0.5, 3.0])), 'duration': 0}
                      for j in range(draw(st.integers(1, 2)))]
    for i in range(draw(st.integers(0, 2))):
        beh = draw(st.sampled_from(['obey', 'obey', 'cancel', 'ignore', 'exit']))
        h = {'kind': 'daemon', 'id': f'm{i}', 'behaviour': beh, 'labels': draw(flt),
             'cancellation_backoff': draw(st.sampled_from([None, 0.5, 3.0])),
             'cancellation_timeout': draw(st.sampled_from([1.0, 4.0])) if beh in ('ignore', 'cancel') else draw(st.sampled_from([None, 1.0, 4.0])),
             'exit_delay': draw(st.sampled_from([0, 0, 2.0])), 'duration': draw(st.sampled_from([0, 1.0])), 'script': []}
        handlers.append(h)
    if draw(st.booleans()):
        handlers.append({'kind': 'timer', 'id': 't0', 'interval': draw(st.sampled_from([1.0, 5.0])), 'labels': draw(flt),
                         'duration': draw(st.sampled_from([0, 0.5, 2.0])), 'script': []})
    if draw(st.booleans()) or not handlers:
        handlers.append({'kind': draw(st.sampled_from(['create', 'update'])), 'id': 'x0', 'script': draw(cl.outcome_scripts(delays, max_len=1)),
                         'backoff': 3.0, 'duration': 0})
    if any(h['kind'] == 'delete' for h in handlers) and any(h['kind'] in ('daemon', 'timer') for h in handlers):
        # (known finding C02-N: deletion handlers are re-run in a loop while daemons are stopping; with zero-duration
        #  handlers and a zero-latency API that loop takes no virtual time at all - keep time moving)
        for h in handlers:
            if h['kind'] == 'delete':
                h['duration'] = draw(st.sampled_from([0.5, 1.0]))
    targeted = draw(st.integers(0, 5)) == 0
    if targeted:
        # nothing but deletion handlers behind a label filter: an object that stops matching them is nobody's business any more
        # (no raw-event handler, no daemon, no timer, no other change handler looks at it) - and must be let go all the same
        handlers = [{'kind': 'delete', 'id': f'd{i}', 'optional': None, 'labels': {'on': 'yes'}, 'script': draw(cl.outcome_scripts(delays, max_len=1)),
                     'errors': None, 'backoff': 0.5, 'duration': 0} for i in range(draw(st.integers(1, 2)))]
    spec = {'handlers': handlers, 'lifecycle': draw(st.sampled_from(['asap', 'all_at_once'])),
            'settings': {'persistence.consistency_timeout': draw(st.sampled_from([5.0, 1.0])),
                         'background.cancellation_polling': 2.0, 'queueing.idle_timeout': draw(st.sampled_from([5.0, 0.5]))}}
    dts = st.sampled_from([0.0, 0.0, 0.1, 0.5, 1.0, 3.0, 4.0 - 1e-6, 4.0, 10.0])
    base = cl.env_actions(dts, n_objects=2, with_delete=True, with_finalizers=True, with_labels=True)
    acts = [base] * 5 + ([cl.process_actions(dts, kill=True)] if draw(st.booleans()) else [])
    actions = draw(st.lists(st.one_of(*acts), min_size=2, max_size=14))
    if not any(a['a'] == 'create' for a in actions):
        actions.insert(0, {'a': 'create', 'obj': 0, 'v': 1, 'dt': draw(dts)})
    if not any(a['a'] == 'delete' for a in actions) and draw(st.booleans()):
        actions.append({'a': 'delete', 'obj': 0, 'dt': draw(dts)})
    if draw(st.booleans()):
        actions.insert(1, {'a': 'label', 'obj': draw(st.integers(0, 1)), 'v': 'yes', 'dt': draw(dts)})
    if targeted:
        actions = [{'a': 'create', 'obj': 0, 'v': 1, 'dt': draw(dts)}, {'a': 'label', 'obj': 0, 'v': 'yes', 'dt': draw(st.sampled_from([0.5, 3.0]))},
                   {'a': 'label', 'obj': 0, 'v': draw(st.sampled_from(['no', None])), 'dt': draw(st.sampled_from([0.5, 3.0, 10.0]))}] + actions[:draw(st.integers(0, 5))]
    cluster = {'status_sub': draw(st.booleans()), 'api_latency': draw(st.sampled_from([None, 0.2, 0.2, 1.0])),
               'rsp_latency': draw(st.sampled_from([None, None, 0.3, 1.0])),
               'watch_latency': draw(st.sampled_from([None, None, 0.1, 0.5])),
               'quirk_deleted_keeps_finalizer': draw(st.booleans()), 'quirk_final_patch_bumps_rv': draw(st.booleans())}
    pre = []
    if draw(st.integers(0, 2)) == 0:
        # objects that already carry foreign finalizers (in any order) before the operator ever sees them
        pre = [{'a': 'create', 'obj': 0, 'v': 1, 'dt': 0.0}] + [
            {'a': 'add_finalizer', 'obj': 0, 'n': n, 'front': draw(st.booleans()), 'dt': 0.0}
            for n in draw(st.permutations(['f/b', 'f/a', 'zz/c']))[:draw(st.integers(1, 3))]]
    return {'seed': draw(st.integers(0, 9999)), 'spec': spec, 'cluster': cluster, 'pre': pre, 'actions': actions}


def matches(h, body):
    labels = body['metadata'].get('labels') or {}
    for k, v in (h.get('labels') or {}).items():
        if labels.get(k) != v:
            return False
    return True


def bound_for(sc):
    total = 60.0
    for h in sc['spec']['handlers']:
        for s in h.get('script') or []:
            total += s.get('delay', 0) if s['o'] == 'temp' else h.get('backoff', 60)
        total += (h.get('cancellation_backoff') or 0) + (h.get('cancellation_timeout') or 0) + h.get('exit_delay', 0) + 4.0
        total += h.get('duration') or 0
    return total


def check(run, res, quiesced):
    sc = run.sc
    spec = sc['spec']
    sim = run.sim
    hs = {h['id']: h for h in spec['handlers']}
    versions = {}
    for h in sim.cluster.history:
        if h['rkey'] == KEX:
            versions.setdefault(h['uid'], []).append(h)
    calls = [c for c in sim.trace if c.get('k') == 'call']
    got_422 = any(r['outcome'] == 422 for r in sim.cluster.requests if 'jsonpatch' in r['classes'])
    foreign_edit_while_held = False
    deleted_while_sleeping = False
    deliveries = {}
    for w in sim.cluster.all_watches:
        if w.rkey == KEX:
            for (t, typ, rv, uid, tick) in w.delivered:
                if rv is not None:
                    deliveries.setdefault((w.session.client_id, uid, int(rv)), t)

    for uid, vers in versions.items():
        for i, v in enumerate(vers):
            if i == 0:
                continue
            prev = vers[i - 1]
            pf = prev['body']['metadata'].get('finalizers') or []
            nf = v['body']['metadata'].get('finalizers') or []
            if v['type'] == 'DELETED':
                nf_eff = [f for f in pf if f != FIN] if v['writer'] != 'env' else nf
            else:
                nf_eff = nf
            if v['writer'] == 'env':
                if FIN in pf and [f for f in pf if f != FIN] != [f for f in nf if f != FIN]:
                    foreign_edit_while_held = True
                if v['body']['metadata'].get('deletionTimestamp') and not prev['body']['metadata'].get('deletionTimestamp'):
                    # deletion requested: was a delete handler (or anything) sleeping between retries?
                    pass
                continue
            # F4: foreign finalizers untouched by the operator, order included
            if v['type'] != 'DELETED' and [f for f in pf if f != FIN] != [f for f in nf if f != FIN]:
                res.fail('C06/F4-foreign-finalizers-changed', f'{v["writer"]} changed the foreign finalizers of {v["name"]}: {pf} -> {nf} at t={v["t"]}')
            if v['type'] != 'DELETED' and nf.count(FIN) > 1:
                res.fail('C06/F4-duplicate-finalizer', f'{v["name"]}: {nf}')
            released = FIN in pf and (FIN not in nf if v['type'] != 'DELETED' else True)
            if not released:
                continue
            inc = v['writer']
            body = prev['body']
            deleting = bool(body['metadata'].get('deletionTimestamp'))
            t = v['t']
            # which handlers hold the object
            for hid, h in hs.items():
                if not matches(h, body):
                    continue
                if h['kind'] == 'delete' and not h.get('optional'):
                    if not deleting:
                        msg = f'{inc} removed the finalizer of the live object {v["name"]} at t={t} although the mandatory delete handler {hid} matches it'
                        if is_finding_o(sim, inc, uid, h, vers, v):
                            res.known.append({'id': FINDING_O, 'msg': msg})
                        else:
                            res.fail('C06/F1-released-while-required', msg)
                    else:
                        # the deletion cycle: invocations whose view was marked for deletion
                        mine = [c for c in calls if c['uid'] == uid and c['hid'] == hid and c['view']['metadata'].get('deletionTimestamp')
                                and c['seq'] < v['seq']]
                        finished = [c for c in mine if c02._is_final(c, h) and c.get('seq1', 1e18) < v['seq']]
                        if not finished:
                            msg = (f'{inc} released {v["name"]} at t={t} before the mandatory delete handler {hid} finished '
                                   f'(its invocations: {[(c["t0"], c["outcome"]) for c in mine]})')
                            if is_finding_o(sim, inc, uid, h, vers, v):
                                res.known.append({'id': FINDING_O, 'msg': msg})
                            else:
                                res.fail('C06/F1-released-before-delete-handler', msg)
                        else:
                            # a deletion handler with sub-handlers has finished when they all have: one still waiting for its retry holds the object
                            for sub in h.get('subs') or []:
                                sid = f'{hid}/{sub["id"]}'
                                smine = [c for c in calls if c['uid'] == uid and c['hid'] == sid and c['view']['metadata'].get('deletionTimestamp') and c['seq'] < v['seq']]
                                if not [c for c in smine if c02._is_final(c, sub) and c.get('seq1', 1e18) < v['seq']]:
                                    res.fail('C06/F1-released-before-sub-handler', f'{inc} released {v["name"]} at t={t} before the sub-handler {sid} of the mandatory delete '
                                             f'handler finished (its invocations: {[(c["t0"], c["outcome"]) for c in smine]}; the parent\'s: {[(c["t0"], c["outcome"]) for c in mine]})')
                if h['kind'] in ('daemon', 'timer'):
                    inst = [c for c in calls if c['uid'] == uid and c['hid'] == hid and c['inc'] == inc and c['seq'] < v['seq']]
                    running = [c for c in inst if c.get('seq1') is None or c['seq1'] > v['seq']]
                    exited_on_own = any(c for c in inst if h['kind'] == 'daemon' and c.get('seq1') is not None and c['seq1'] < v['seq']
                                        and not c.get('stopped_set') and c['outcome'] in ('ok', 'perm'))
                    if not deleting:
                        if not exited_on_own and inst:
                            msg = f'{inc} removed the finalizer of the live object {v["name"]} at t={t} although {h["kind"]} {hid} matches it and has not exited on its own'
                            if is_finding_o(sim, inc, uid, h, vers, v):
                                res.known.append({'id': FINDING_O, 'msg': msg})
                            else:
                                res.fail('C06/F1-released-while-required', msg)
                        continue
                    for c in running:
                        if h['kind'] == 'timer':
                            res.fail('C06/F1-released-while-timer-runs', f'{inc} released {v["name"]} at t={t} while timer {hid} (started {c["t0"]}) was still running')
                            continue
                        # abandonment: allowed only after backoff + timeout since the stop flag (not earlier than the deletion was seen)
                        del_versions = [x for x in vers if x['body']['metadata'].get('deletionTimestamp') and x['seq'] < v['seq']]
                        t_seen = min([deliveries.get((inc, uid, x['rv']), 1e18) for x in del_versions] + [1e18])
                        if h.get('cancellation_timeout') is None:
                            res.fail('C06/F1-released-while-daemon-runs', f'{inc} released {v["name"]} at t={t} while daemon {hid} ({h["behaviour"]}, no timeout) was still running')
                        elif t + 1e-6 < t_seen + (h.get('cancellation_backoff') or 0) + h['cancellation_timeout']:
                            res.fail('C06/F1-abandoned-too-early', f'{inc} released {v["name"]} at t={t} while daemon {hid} was still running; the deletion was seen at '
                                     f'{t_seen}, backoff={h.get("cancellation_backoff")} timeout={h["cancellation_timeout"]}')
        # classification helper: deletion while a delete handler sleeps
        for x in vers:
            if x['writer'] == 'env' and x['body']['metadata'].get('deletionTimestamp'):
                pcalls = [c for c in calls if c['uid'] == uid and hs.get(c['hid'], {}).get('kind') == 'delete' and c['outcome'] in ('temp', 'err')]
                if pcalls:
                    deleted_while_sleeping = True

    if quiesced:
        cur = run.current
        for key, body in sim.cluster.objects.items():
            if key[0] != KEX:
                continue
            uid, name = body['metadata']['uid'], body['metadata']['name']
            fins = body['metadata'].get('finalizers') or []
            if body['metadata'].get('deletionTimestamp'):
                if FIN in fins:
                    res.fail('C06/F2-never-released', f'{name} is marked for deletion since {body["metadata"]["deletionTimestamp"]} and still carries the finalizer at quiescence (finalizers={fins})')
                continue
            required = False
            why = None
            for hid, h in hs.items():
                if not matches(h, body):
                    continue
                if h['kind'] == 'delete' and not h.get('optional'):
                    required, why = True, hid
                if h['kind'] in ('daemon', 'timer'):
                    inst = [c for c in calls if c['uid'] == uid and c['hid'] == hid and c['inc'] == cur]
                    own_exit = any(c for c in inst if h['kind'] == 'daemon' and c.get('seq1') is not None and not c.get('stopped_set') and c['outcome'] in ('ok', 'perm'))
                    if not own_exit:
                        required, why = True, hid
            if required and FIN not in fins:
                res.fail('C06/F3-finalizer-missing', f'{name} matches {why} but carries no finalizer at quiescence (finalizers={fins})')
            if not required and FIN in fins:
                res.fail('C06/F3-finalizer-left', f'{name} is matched by nothing that needs the finalizer, yet it is still there at quiescence (finalizers={fins}, labels={body["metadata"].get("labels")})')

    if got_422:
        res.label('422-on-jsonpatch')
    if foreign_edit_while_held:
        res.label('foreign-finalizer-edit-while-held')
    if deleted_while_sleeping:
        res.label('deletion-with-failing-delete-handler')
    res.nontrivial = got_422 or foreign_edit_while_held or deleted_while_sleeping
    if res.nontrivial:
        res.label('nontrivial')


def run_case(scenario):
    res = CaseResult()
    run = cl.Run(scenario)
    try:
        quiesced = True
        try:
            run.run()
            run.quiesce(bound_for(scenario) * 2)
            # The finalizer follows the requirements on the next event of the object (a daemon that exits on its own
            # produces no event by itself): give every live object one more (non-essential) event before judging F3.
            for key in [k for k in run.cluster.objects if k[0] == KEX]:
                run.cluster.edit(*key, lambda b: b.setdefault('status', {}).update(probe=1))
            run.advance(bound_for(scenario))
        except Livelock as e:
            res.fail('C06/livelock', str(e))
            quiesced = False
        check(run, res, quiesced)
        res.summary = cl.summarize(run, max_calls=25)
    finally:
        run.close()
    return res


def run_shard(ctx):
    n = ctx['examples'] or BUDGET[ctx['tier']]
    return explore(scenarios(), run_case, seed=ctx['seed'], max_examples=n, tier=ctx['tier'], known_ids=ctx['known_ids'])
