"""C15 — Exactly the handlers whose declared criteria hold are invoked."""
import itertools
import logging

from hypothesis import strategies as st

from props import closedloop as cl
from kopfsim.sim import KEX
from kopfsim.world import Livelock
from runner.pbt import CaseResult, explore

ID = 'C15'
LEVEL = 'exploration'
RULE = ('L1: product of handler declarations over a small criteria alphabet (kind x label criterion x annotation criterion x '
        'field/value or old/new criterion x when) with object/old/new states over the same alphabet and the cause kind, '
        'registered through the public decorators and compared by set-of-ids with an executable reading of docs/filters.rst '
        '(sampled in the quick tier, enumerated completely in the thorough tier); L2: closed-loop histories with generated '
        'filtered handlers, comparing the handlers invoked per object version with the same reference and checking that '
        'unmatched objects receive no operator write. Non-trivial: a declaration with >=2 criteria of different kinds of '
        'which at least one holds and at least one fails; distinct by (declaration, state) / scenario JSON')
ASSUMPTIONS = [
    'the reference matcher is written from docs/filters.rst and the property statement, not from registries.py',
    'callbacks in the alphabet are pure and total',
    'on.field handlers are compared for update causes only (their selection for other causes is not documented)',
    'L2: the API-server model and virtual time of kopfsim',
]
BUDGET = {'quick': 70000, 'thorough': None}   # L1 combinations per shard (None = the whole slice)
L2_BUDGET = {'quick': 40, 'thorough': 600}
L3_BUDGET = {'quick': 1500, 'thorough': 40000}

PRESENT, ABSENT = '@present', '@absent'
# (falsy literals are legal criteria and legal values: spec.f == 0, a label with an empty value)
LABEL_CRITERIA = [None, 'a', '', PRESENT, ABSENT, '@cb:isa', '@cb:isnone']
ANN_CRITERIA = [None, 'a', ABSENT]
VALUE_CRITERIA = ['nofield', 'fieldonly', 1, 0, PRESENT, ABSENT, '@cb:is1', '@cb:isnone']
OLDNEW_CRITERIA = [None, 1, 2, 0, PRESENT, ABSENT, '@cb:is1', '@cb:isnone']
WHEN = [None, '@cb:true', '@cb:false']
LABEL_STATES = [None, 'a', 'b', '']
ANN_STATES = [None, 'a']
FIELD_STATES = [None, 1, 2, 0]
CHANGING = ['create', 'update', 'delete', 'resume', 'field']
OTHER = ['event', 'daemon', 'timer', 'index']
_ABS = object()


# ------------------------------------------------------------------------------------------ reference
def crit_ok(crit, present, value):
    """One value criterion against a (present?, value) observation; callbacks get None when absent."""
    if crit is None:
        return True
    if crit == PRESENT:
        return present
    if crit == ABSENT:
        return not present
    if isinstance(crit, str) and crit.startswith('@cb:'):
        v = value if present else None
        return {'isa': v == 'a', 'is1': v == 1, 'is2': v == 2, 'isnone': v is None, 'true': True, 'false': False}[crit[4:]]
    return present and value == crit


def reference_match(decl, state, cause_kind):
    kind = decl['kind']
    # cause kind
    if kind in CHANGING:
        if cause_kind not in ('create', 'update', 'delete', 'resume'):
            return False
        if kind == 'field':
            if cause_kind != 'update':
                return None      # not compared
        elif kind == 'resume':
            if not state.get('initial') or cause_kind == 'create':
                return False
            if cause_kind == 'delete':
                return False     # resume handlers skip objects being deleted unless deleted=True (C05/C14)
        elif kind != cause_kind:
            return False
    else:
        if cause_kind != kind:
            return False
    if not crit_ok(decl['labels'], state['label'] is not None, state['label']):
        return False
    if not crit_ok(decl['annotations'], state['ann'] is not None, state['ann']):
        return False
    if decl['when'] == '@cb:false':
        return False
    new_p, new_v = state['new'] is not None, state['new']
    old_p, old_v = state.get('old') is not None, state.get('old')
    updating = kind in ('update', 'field') and cause_kind == 'update'
    value = decl['value']
    has_field = value != 'nofield' or decl.get('old') is not None or decl.get('new') is not None
    if not has_field:
        return True
    if updating:
        if (old_p, old_v) == (new_p, new_v):
            return False                        # the field is not affected
        crit = PRESENT if value in ('nofield', 'fieldonly') else value
        if decl.get('old') is None and decl.get('new') is None:
            if not (crit_ok(crit, old_p, old_v) or crit_ok(crit, new_p, new_v)):
                return False
        else:
            if not crit_ok(decl.get('old'), old_p, old_v) or not crit_ok(decl.get('new'), new_p, new_v):
                return False
        return True
    crit = PRESENT if value == 'fieldonly' else value
    return crit_ok(crit, new_p, new_v)


# ------------------------------------------------------------------------------------------ the real thing
def build_registry(decl):
    import kopf
    from kopf._core.intents.registries import OperatorRegistry
    from kopfsim.opspec import decode_filter
    reg = OperatorRegistry()

    def fn(**_):
        pass
    kw = {}
    if decl['labels'] is not None:
        kw['labels'] = {'l': decode_filter(decl['labels'])}
    if decl['annotations'] is not None:
        kw['annotations'] = {'n': decode_filter(decl['annotations'])}
    if decl['when'] is not None:
        kw['when'] = decode_filter(decl['when'])
    value = decl['value']
    if value != 'nofield' or decl.get('old') is not None or decl.get('new') is not None:
        kw['field'] = 'spec.f'
        if value not in ('nofield', 'fieldonly'):
            kw['value'] = decode_filter(value)
        if decl.get('old') is not None:
            kw['old'] = decode_filter(decl['old'])
        if decl.get('new') is not None:
            kw['new'] = decode_filter(decl['new'])
    kind = decl['kind']
    if kind == 'index':
        kopf.index('kopfexamples', id='h', registry=reg, **kw)(fn)
    elif kind == 'event':
        kopf.on.event('kopfexamples', id='h', registry=reg, **kw)(fn)
    elif kind == 'daemon':
        kopf.daemon('kopfexamples', id='h', registry=reg, **kw)(fn)
    elif kind == 'timer':
        kopf.timer('kopfexamples', id='h', registry=reg, interval=1, **kw)(fn)
    else:
        getattr(kopf.on, kind)('kopfexamples', id='h', registry=reg, **kw)(fn)
    if decl.get('twice'):
        getattr(kopf.on, kind if kind in CHANGING else 'event')('kopfexamples', id='h', registry=reg, **kw)(fn) \
            if kind in CHANGING or kind == 'event' else None
    return reg


_RESOURCE = None


def make_cause(state, cause_kind):
    import kopf
    from kopf._cogs.structs import bodies, diffs, patches, references
    from kopf._core.intents import causes
    global _RESOURCE
    if _RESOURCE is None:
        _RESOURCE = references.Resource('kopf.dev', 'v1', 'kopfexamples', namespaced=True,
                                        kind='KopfExample', singular='kopfexample')
    meta = {'name': 'x', 'namespace': 'ns', 'uid': 'u', 'resourceVersion': '5'}
    if state['label'] is not None:
        meta['labels'] = {'l': state['label']}
    if state['ann'] is not None:
        meta['annotations'] = {'n': state['ann']}
    if cause_kind == 'delete':
        meta['deletionTimestamp'] = '2030-01-01T00:00:00Z'
        meta['finalizers'] = [cl.FINALIZER]
    spec = {'g': 1}
    if state['new'] is not None:
        spec['f'] = state['new']
    raw = {'apiVersion': 'kopf.dev/v1', 'kind': 'KopfExample', 'metadata': meta, 'spec': spec}
    body = bodies.Body(raw)
    common = dict(logger=logging.getLogger('x'), indices={}, memo=None, resource=_RESOURCE, patch=patches.Patch(), body=body)
    if cause_kind in ('create', 'update', 'delete', 'resume'):
        new = {'spec': dict(spec)}
        if 'labels' in meta or 'annotations' in meta:
            new['metadata'] = {k: dict(meta[k]) for k in ('labels', 'annotations') if k in meta}
        if cause_kind == 'create':
            old = None
        else:
            ospec = {'g': 1 if not state.get('other_changed') else 0}
            if state.get('old') is not None:
                ospec['f'] = state['old']
            old = dict(new, spec=ospec)
        reason = {'create': causes.Reason.CREATE, 'update': causes.Reason.UPDATE, 'delete': causes.Reason.DELETE,
                  'resume': causes.Reason.RESUME}[cause_kind]
        return causes.ChangingCause(initial=bool(state.get('initial')) and cause_kind != 'create', reason=reason,
                                    diff=diffs.diff(old, new), old=old, new=new, **common)
    if cause_kind == 'event':
        return causes.WatchingCause(type='MODIFIED', event={'type': 'MODIFIED', 'object': raw}, **common)
    if cause_kind in ('daemon', 'timer'):
        return causes.SpawningCause(reset=False, **common)
    if cause_kind == 'index':
        return causes.IndexingCause(**common)
    raise ValueError(cause_kind)


def real_match(decl, state, cause_kind):
    reg = build_registry(decl)
    cause = make_cause(state, cause_kind)
    if cause_kind in ('create', 'update', 'delete', 'resume'):
        got = reg._changing.get_handlers(cause=cause)
    elif cause_kind == 'event':
        got = reg._watching.get_handlers(cause=cause)
    elif cause_kind in ('daemon', 'timer'):
        got = reg._spawning.get_handlers(cause=cause)
    else:
        got = reg._indexing.get_handlers(cause=cause)
    return [h.id for h in got]


# ------------------------------------------------------------------------------------------ L1 space
def l1_decls():
    """Yields (decl, cause_kinds) — every handler declaration of the bounded alphabet."""
    for kind in CHANGING + OTHER:
        upd = kind in ('update', 'field')
        value_opts = [(v, None, None) for v in VALUE_CRITERIA]
        if upd:
            value_opts += [('nofield', o, n) for o in OLDNEW_CRITERIA for n in OLDNEW_CRITERIA if o is not None or n is not None]
        if kind == 'field':
            value_opts = [v for v in value_opts if v != ('nofield', None, None)]
        cause_kinds = ['create', 'update', 'delete', 'resume'] if kind in CHANGING else [kind]
        for labels, anns, (value, old, new), when, twice in itertools.product(LABEL_CRITERIA, ANN_CRITERIA, value_opts, WHEN, [False, True]):
            if twice and (labels is not None or anns is not None or when is not None):
                continue       # the duplicate-registration dimension is explored on its own
            yield dict(kind=kind, labels=labels, annotations=anns, value=value, old=old, new=new, when=when, twice=twice), cause_kinds


_STATES = {}


def l1_states(kind, ck):
    """Every (object state, old state) of the bounded alphabet for a handler kind and a cause kind."""
    key = (kind == 'resume', ck)
    if key not in _STATES:
        out = []
        olds = FIELD_STATES if ck in ('update', 'delete', 'resume') else [None]
        others = [False, True] if ck == 'update' else [False]
        inits = [False, True] if kind == 'resume' or ck == 'resume' else [False]
        for label, ann, newv, oldv, other, init in itertools.product(LABEL_STATES, ANN_STATES, FIELD_STATES, olds, others, inits):
            if ck == 'update' and oldv == newv and not other:
                continue     # not an update at all
            if ck == 'resume' and (oldv != newv or not init):
                continue     # resume = nothing changed at first sight
            out.append(dict(label=label, ann=ann, new=newv, old=oldv, other_changed=other, initial=init))
        _STATES[key] = out
    return _STATES[key]


def l1_space():
    """Yields (decl, state, cause_kind) — the complete bounded product."""
    for decl, cause_kinds in l1_decls():
        for ck in cause_kinds:
            for state in l1_states(decl['kind'], ck):
                yield decl, state, ck


def l1_size():
    return sum(len(l1_states(decl['kind'], ck)) for decl, cks in l1_decls() for ck in cks)


def mix(*xs):
    """A fixed integer hash (selection of a sample must not follow the enumeration order of the product: a stride aliases with it)."""
    h = 0x811C9DC5
    for x in xs:
        h = ((h ^ (x & 0xFFFFFFFF)) * 0x9E3779B1) & 0xFFFFFFFF
        h ^= h >> 15
        h = (h * 0x85EBCA6B) & 0xFFFFFFFF
        h ^= h >> 13
    return h


def nontrivial_l1(decl, state, ck, expected):
    crits = []
    if decl['labels'] is not None:
        crits.append(crit_ok(decl['labels'], state['label'] is not None, state['label']))
    if decl['annotations'] is not None:
        crits.append(crit_ok(decl['annotations'], state['ann'] is not None, state['ann']))
    if decl['when'] is not None:
        crits.append(decl['when'] != '@cb:false')
    if decl['value'] != 'nofield' or decl['old'] is not None or decl['new'] is not None:
        only_field = dict(decl, labels=None, annotations=None, when=None)
        crits.append(bool(reference_match(only_field, state, ck)))
    return len(crits) >= 2 and any(crits) and not all(crits)


FINDING_F = 'C15-F-value-on-non-update-causes'


def judge(decl, state, ck, res):
    expected = reference_match(decl, state, ck)
    if expected is None:
        return None
    try:
        got = real_match(decl, state, ck)
    except Exception as e:
        res.fail('C15/L1-raises', f'{decl} on {state} for {ck}: {type(e).__name__}: {e}')
        return expected
    want = 1 if expected else 0
    if len(got) != want:
        msg = (f'declaration {decl} on state {state} for cause {ck}: selected {got} ({len(got)} invocation(s)), '
               f'docs/filters.rst says {want}')
        res.fail('C15/L1-selection' + (':dup' if decl.get('twice') and len(got) > 1 else ''), msg)
    return expected


# ------------------------------------------------------------------------------------------ L2 closed loop
@st.composite
def l2_scenarios(draw):
    dts = st.sampled_from([0.0, 0.5, 3.0, 10.0])
    handlers = []
    n = draw(st.integers(1, 4))
    for i in range(n):
        kind = draw(st.sampled_from(['create', 'update', 'delete', 'resume', 'event']))
        h = {'kind': kind, 'id': f'{kind[0]}{i}', 'script': [], 'duration': 0}
        crit = draw(st.sampled_from(['labels', 'field', 'when', 'none', 'labels+field']))
        if 'labels' in crit:
            h['labels'] = {'on': draw(st.sampled_from(['yes', PRESENT, ABSENT]))}
        if 'field' in crit:
            h['field'] = 'spec.f'
            v = draw(st.sampled_from(['fieldonly', 1, 2, 0, PRESENT]))
            if v != 'fieldonly':
                h['value'] = v
        if crit == 'when':
            h['when'] = draw(st.sampled_from(['@cb:label_on', '@cb:false']))
        handlers.append(h)
    actions = draw(st.lists(cl.env_actions(dts, n_objects=2, with_labels=True), min_size=2, max_size=10))
    actions = [dict(a, v=a['v'] % 3) if a['a'] in ('create', 'edit_spec') else a for a in actions]
    if draw(st.booleans()):
        actions.insert(draw(st.integers(0, len(actions))), {'a': 'restart', 'how': 'stop', 'down': 1.0, 'dt': 0.0})
    if draw(st.integers(0, 4)) == 0:
        return draw(l2_selector_scenarios())
    if draw(st.integers(0, 3)) == 0:
        # Sub-handlers with their own criteria: they are judged like their parent (field changes only under update/field
        # parents; the current value under create/resume parents), whatever cause the parent happens to be invoked for -
        # e.g. a resume parent invoked within an update after a downtime.
        pkind = draw(st.sampled_from(['resume', 'resume', 'create', 'update']))
        subs = []
        for j, fld in enumerate(['spec.f', 'spec.g']):
            sub = {'id': f's{j}', 'script': [], 'duration': 0, 'field': fld}
            if draw(st.integers(0, 3)) == 0:
                sub['labels'] = {'on': draw(st.sampled_from(['yes', PRESENT, ABSENT]))}
            subs.append(sub)
        if draw(st.booleans()):
            subs.append({'id': 's2', 'script': [], 'duration': 0})
        handlers = [{'kind': pkind, 'id': 'p0', 'script': [], 'duration': 0, 'subs': subs}]
        if draw(st.booleans()):
            handlers.append({'kind': draw(st.sampled_from(['update', 'create', 'event'])), 'id': 'x1', 'script': [], 'duration': 0})
        edits = st.one_of(
            st.builds(lambda fld, v, dt: {'a': 'edit_field', 'obj': 0, 'path': ['spec', fld], 'v': v, 'dt': dt},
                      st.sampled_from(['f', 'g', 'h']), st.integers(1, 4), dts),
            st.builds(lambda v, dt: {'a': 'label', 'obj': 0, 'v': v, 'dt': dt}, st.sampled_from(['yes', 'no']), dts),
            st.builds(lambda dt: {'a': 'advance', 'dt': dt}, dts))
        pre = [{'a': 'create', 'obj': 0, 'v': 1, 'dt': 0.0}]
        if draw(st.booleans()):
            pre.append({'a': 'edit_field', 'obj': 0, 'path': ['spec', 'g'], 'v': 1, 'dt': 0.0})
        actions = [{'a': 'advance', 'dt': 3.0}] + draw(st.lists(edits, max_size=3))
        # a downtime with an edit in it: the first cycle of the next process is an update (or nothing) with the resuming mixed in
        actions += [{'a': 'downtime', 'how': 'stop', 'down': 1.0, 'dt': 0.0, 'edits': draw(st.lists(edits, min_size=0, max_size=2))}]
        actions += draw(st.lists(edits, max_size=3))
        return {'mode': 'L2', 'family': 'subs', 'seed': draw(st.integers(0, 9999)), 'spec': {'handlers': handlers, 'lifecycle': 'all_at_once'},
                'cluster': {}, 'pre': pre, 'actions': actions}
    if draw(st.integers(0, 2)) == 0:
        # Aim at the cause-kind criterion of resume handlers: a pre-existing object that starts to satisfy the
        # resume handler's filter only later, next to other (matching) handlers.
        handlers = [{'kind': 'resume', 'id': 'r0', 'script': [], 'duration': 0,
                     'labels': {'on': draw(st.sampled_from(['yes', PRESENT]))}},
                    {'kind': draw(st.sampled_from(['update', 'create', 'update'])), 'id': 'x1', 'script': [], 'duration': 0}]
        if draw(st.booleans()):
            handlers.append({'kind': 'event', 'id': 'e2', 'script': [], 'duration': 0})
        actions = [{'a': 'advance', 'dt': draw(dts)},
                   {'a': draw(st.sampled_from(['label', 'edit_spec', 'annotate'])), 'obj': 0, 'v': draw(st.sampled_from(['yes', 'no'])) , 'dt': draw(dts)},
                   {'a': 'label', 'obj': 0, 'v': 'yes', 'dt': draw(dts)}] + actions[:3]
        actions = [dict(a, v=(a['v'] if a['a'] == 'label' else 1)) for a in actions]
        pre = [{'a': 'create', 'obj': 0, 'v': 1, 'dt': 0.0}]
        if draw(st.booleans()):
            pre.append({'a': 'label', 'obj': 0, 'v': 'no', 'dt': 0.0})
        return {'mode': 'L2', 'seed': draw(st.integers(0, 9999)), 'spec': {'handlers': handlers, 'lifecycle': 'all_at_once'},
                'cluster': {}, 'pre': pre, 'actions': actions}
    pre = draw(st.lists(cl.env_actions(st.just(0.0), n_objects=2, with_delete=False, with_labels=True), max_size=3))
    pre = [dict(a, v=a['v'] % 3) if a['a'] in ('create', 'edit_spec') else a for a in pre]
    return {'mode': 'L2', 'seed': draw(st.integers(0, 9999)), 'spec': {'handlers': handlers, 'lifecycle': 'all_at_once'},
            'cluster': {}, 'pre': pre, 'actions': actions}


SEL_CLUSTER = [
    {'gvp': ['kopf.dev', 'v1', 'kopfexamples'], 'kind': 'KopfExample', 'singular': 'kopfexample', 'shortnames': ['kex'], 'categories': ['all', 'kopf'], 'namespaced': True},
    {'gvp': ['kopf.dev', 'v1', 'kopfexamplesets'], 'kind': 'KopfExampleSet', 'singular': 'kopfexampleset', 'shortnames': ['kexs'], 'categories': ['all'], 'namespaced': True},
    {'gvp': ['other.io', 'v1', 'widgets'], 'kind': 'Widget', 'singular': 'widget', 'shortnames': ['kex', 'wi'], 'categories': ['kopf'], 'namespaced': True},
]
SEL_CHOICES = [
    {'resource': ['kopfexamples']}, {'resource': ['KopfExample']}, {'resource': ['kex']}, {'resource': ['wi']}, {'resource': ['widget']},
    {'resource': ['kopf.dev', '@everything']}, {'resource': ['other.io/v1', 'widgets']}, {'resource': ['kopf.dev', 'v1', 'kopfexamplesets']},
    {'resource': ['kopfexamples.kopf.dev']}, {'resource': ['widgets.v1.other.io']}, {'resource': ['kex.other.io']},
    {'resource_kw': {'category': 'kopf'}}, {'resource_kw': {'category': 'all'}}, {'resource_kw': {'kind': 'Widget'}},
    {'resource_kw': {'shortcut': 'kexs'}}, {'resource_kw': {'plural': 'KopfExample'}}, {'resource_kw': {'singular': 'widget', 'group': 'other.io'}},
    {'resource_kw': {'shortcut': 'kex', 'group': 'kopf.dev'}}, {'resource_kw': {'kind': 'kopfexamples'}}, {'resource_kw': {'kind': 'widget'}},
]


@st.composite
def l2_selector_scenarios(draw):
    """The resource-selector criterion in the closed loop: three kinds with colliding names, on.event handlers in several notations."""
    handlers = []
    for i in range(draw(st.integers(1, 3))):
        handlers.append(dict(draw(st.sampled_from(SEL_CHOICES)), kind='event', id=f'e{i}', script=[], duration=0))
    dts = st.sampled_from([0.0, 0.5, 3.0])
    kinds = st.integers(0, 2)
    acts = st.one_of(
        st.builds(lambda k, n, v, dt: {'a': 'xcreate', 'gvp': SEL_CLUSTER[k]['gvp'], 'ns': 'default', 'name': f'x{n}', 'v': v, 'dt': dt}, kinds, st.integers(0, 1), st.integers(0, 5), dts),
        st.builds(lambda k, n, v, dt: {'a': 'xedit', 'gvp': SEL_CLUSTER[k]['gvp'], 'ns': 'default', 'name': f'x{n}', 'v': v, 'dt': dt}, kinds, st.integers(0, 1), st.integers(0, 5), dts),
        st.builds(lambda dt: {'a': 'advance', 'dt': dt}, dts))
    pre = [{'a': 'xcreate', 'gvp': SEL_CLUSTER[k]['gvp'], 'ns': 'default', 'name': 'x0', 'v': 0, 'dt': 0.0} for k in range(3) if draw(st.booleans())]
    actions = draw(st.lists(acts, min_size=3, max_size=10))
    return {'mode': 'L2', 'family': 'selectors', 'seed': draw(st.integers(0, 9999)), 'spec': {'handlers': handlers, 'lifecycle': 'all_at_once'},
            'cluster': {'extra_resources': SEL_CLUSTER[1:], 'kex_names': SEL_CLUSTER[0]}, 'pre': pre, 'actions': actions}


def run_l2_selectors(sc, res):
    from props import c15sel
    run = cl.Run(sc)
    try:
        try:
            run.run()
            run.quiesce(20.0)
        except Livelock as e:
            res.fail('C15/livelock', str(e))
        sim = run.sim
        rs = [{'group': r['gvp'][0], 'version': r['gvp'][1], 'plural': r['gvp'][2], 'kind': r['kind'], 'singular': r['singular'],
               'shortcuts': r['shortnames'], 'categories': r['categories'], 'preferred': True, 'namespaced': True,
               'verbs': ['list', 'watch', 'patch', 'create', 'delete', 'get', 'update']} for r in SEL_CLUSTER]
        hs = [{'id': h['id'], 'kind': 'event', 'sel': {'args': h.get('resource') or [], 'kwargs': h.get('resource_kw') or {}}} for h in sc['spec']['handlers']]
        outcomes = c15sel.ref_served(hs, rs)
        opened = {w.rkey for w in sim.cluster.all_watches if w.session.client_id != 'env' and w.rkey in {tuple(r['gvp']) for r in SEL_CLUSTER}}
        if frozenset(opened) not in outcomes:
            res.fail('C15/L2-served-resources', f'handlers {[(h["id"], h["sel"]) for h in hs]}: the operator watched {sorted(opened)}, docs/resources.rst says {sorted(min(outcomes, key=lambda o: len(o ^ opened)))}')
            return
        served = [r for r in rs if c15sel.rkey(r) in opened]
        want = {c15sel.rkey(r): {h['id'] for h in hs if any(c15sel.rkey(x) == c15sel.rkey(r) for x in c15sel.ref_select(c15sel.parse(h['sel']), served))} for r in served}
        rkey_of, final = {}, {}
        for v in sim.cluster.history:
            rkey_of[v['uid']] = v['rkey']
            if v['type'] != 'DELETED':
                final[v['uid']] = v
        calls = [c for c in sim.trace if c.get('k') == 'call' and c['kind'] == 'event']
        for c in calls:
            rk = rkey_of.get(c['uid'])
            if rk is not None and c['hid'] not in want.get(rk, set()):
                res.fail('C15/L2-handler-on-unselected-resource', f'{c["hid"]} ({next(h["sel"] for h in hs if h["id"] == c["hid"])}) was invoked for {c["name"]} of {rk}')
                return
        for uid, v in final.items():
            for hid in want.get(v['rkey'], set()):
                if not any(c['hid'] == hid and c['uid'] == uid and str(c['rv']) == str(v['rv']) for c in calls):
                    res.fail('C15/L2-selected-handler-not-invoked', f'{hid} ({next(h["sel"] for h in hs if h["id"] == hid)}) was never invoked for the final version rv={v["rv"]} of {v["name"]} of {v["rkey"]} (served: {sorted(opened)})')
                    return
        res.label('L2', 'L2-selectors', f'L2-selectors-served:{len(opened)}')
        res.nontrivial = 0 < len(opened) < 3 and len(calls) > 0
        res.summary = {'served': sorted(map(list, opened)), 'calls': len(calls)}
    finally:
        run.close()


def l2_expected(h, view_state):
    """Does handler spec h match the object state (labels/field/when) — for non-update causes and 'when'/labels in general."""
    labels = view_state['labels']
    for key, crit in (h.get('labels') or {}).items():
        if not crit_ok(crit, key in labels, labels.get(key)):
            return False
    if h.get('when') == '@cb:false':
        return False
    if h.get('when') == '@cb:label_on' and labels.get('on') != 'yes':
        return False
    return True


def run_l2(sc, res):
    if sc.get('family') == 'selectors':
        return run_l2_selectors(sc, res)
    run = cl.Run(sc)
    try:
        try:
            run.run()
            run.quiesce(40.0)
        except Livelock as e:
            res.fail('C15/livelock', str(e))
        sim = run.sim
        handlers = {h['id']: h for h in sc['spec']['handlers']}
        subs_of = {h['id']: h.get('subs') or [] for h in sc['spec']['handlers']}
        for pid, subs in subs_of.items():
            for sub in subs:
                handlers[f'{pid}/{sub["id"]}'] = dict(sub, kind='sub', parent=handlers[pid]['kind'])
        # (3) sub-handlers: whenever the parent has run, exactly those of its sub-handlers whose criteria hold are run - judged
        # as the parent is judged (docs/filters.rst: the field must have *changed* only for update/field handlers and theirs)
        if sc.get('family') == 'subs':
            calls = [c for c in sim.trace if c.get('k') == 'call']
            for c in calls:
                if c['hid'] not in subs_of or not subs_of[c['hid']] or c.get('outcome') != 'ok':
                    continue
                ph = handlers[c['hid']]
                view = c['view']
                labels = view['metadata'].get('labels') or {}
                for sub in subs_of[c['hid']]:
                    want = l2_expected(sub, {'labels': labels})
                    if want and sub.get('field'):
                        key = sub['field'].split('.')[1]
                        if ph['kind'] == 'update':
                            o, n = ((c.get('old') or {}).get('spec') or {}), ((c.get('new') or {}).get('spec') or {})
                            want = o.get(key) != n.get(key)
                        else:
                            want = key in (view.get('spec') or {})
                    sid = f'{c["hid"]}/{sub["id"]}'
                    nxt = min([x['seq'] for x in calls if x['hid'] == c['hid'] and x['uid'] == c['uid'] and x['seq'] > c['seq']], default=1e18)
                    got = any(x['hid'] == sid and x['uid'] == c['uid'] and x['inc'] == c['inc'] and c['seq'] < x['seq'] < nxt for x in calls)
                    if want != got:
                        res.fail('C15/L2-sub-handler-selection',
                                 f'{c["hid"]} ({ph["kind"]} handler, invoked for reason {c["reason"]}) ran on {c["name"]} rv={c["rv"]} '
                                 f'spec={view.get("spec")} labels={labels} old={(c.get("old") or {}).get("spec")}: its sub-handler {sub} was '
                                 f'{"run" if got else "not run"}, its criteria {"hold" if want else "do not hold"}')
                    res.label('L2-sub-judged', 'L2-sub-under-' + ph['kind'] + ('-in-update' if 'update' in str(c['reason']).lower() and ph['kind'] != 'update' else ''))
        # (1) every invocation satisfies the handler's own label/when/field-value criteria on the view it got
        for c in sim.trace:
            if c.get('k') != 'call' or c['hid'] not in handlers:
                continue
            h = handlers[c['hid']]
            view = c['view']
            vs = {'labels': (view['metadata'].get('labels') or {})}
            if not l2_expected(h, vs):
                res.fail('C15/L2-invoked-without-matching', f'{c["hid"]} {h} invoked on {c["name"]} rv={c["rv"]} with labels {vs["labels"]}')
            if h.get('field') and h['kind'] in ('create', 'delete', 'resume', 'event'):
                spec = view.get('spec') or {}
                crit = h.get('value', PRESENT)
                if not crit_ok(crit, 'f' in spec, spec.get('f')):
                    stored = (cl.read_last_handled(view, None) or {}).get('spec') or {}
                    if h['kind'] != 'event' and crit_ok(crit, 'f' in stored, stored.get('f')):
                        res.known.append({'id': FINDING_F, 'msg': f'{c["hid"]} {h} invoked on {c["name"]} whose current spec is {spec} (last-handled {stored})'})
                        continue
                    res.fail('C15/L2-field-criterion', f'{c["hid"]} {h} invoked on {c["name"]} rv={c["rv"]} whose spec is {spec}')
        # (1b) cause kind of resume handlers: they belong to the first sight of a pre-existing object. If the listed
        # body did not satisfy the handler's criteria, a later invocation is legitimate only as part of a handling
        # cycle that was still open since the first sight (some progress record on the object in between).
        versions0 = {}
        for v in sim.cluster.history:
            if v['rkey'] == KEX:
                versions0.setdefault(v['uid'], []).append(v)
        listed = {}
        for r in sim.cluster.requests:
            for uid, rv in r.get('listed') or []:
                listed.setdefault((r['client'], uid), int(rv))
        for c in sim.trace:
            if c.get('k') != 'call' or c['hid'] not in handlers or handlers[c['hid']]['kind'] != 'resume':
                continue
            h = handlers[c['hid']]
            lrv = listed.get((c['inc'], c['uid']))
            if lrv is None:
                res.fail('C15/L2-resume-on-unlisted-object', f'{c["hid"]} invoked by {c["inc"]} on {c["name"]} which it never listed (not a first sight)')
                continue
            lbody = next((v['body'] for v in versions0.get(c['uid'], []) if v['rv'] == lrv), None)
            if lbody is None:
                continue
            spec0 = lbody.get('spec') or {}
            matched_at_first_sight = l2_expected(h, {'labels': lbody['metadata'].get('labels') or {}}) and \
                (not h.get('field') or crit_ok(h.get('value', PRESENT), 'f' in spec0, spec0.get('f')))
            if not matched_at_first_sight:
                between = [v for v in versions0[c['uid']] if lrv <= v['rv'] <= int(c['rv'])]
                open_cycle = any(any(k.startswith('kopf.zalando.org/') and not k.endswith('last-handled-configuration')
                                     and 'touch-dummy' not in k for k in (v['body']['metadata'].get('annotations') or {}))
                                 for v in between)
                if not open_cycle:
                    res.fail('C15/L2-resume-after-first-sight',
                             f'{c["hid"]} {h} invoked by {c["inc"]} on {c["name"]} rv={c["rv"]} (reason {c["reason"]}) although the body it listed '
                             f'at start (rv={lrv}, labels={lbody["metadata"].get("labels")}, spec={spec0}) did not satisfy its criteria and no cycle was open since')
                res.label('L2-resume-filter-false-at-first-sight')
        # (2) objects matched by no handler at any of their versions are left untouched
        versions = {}
        for v in sim.cluster.history:
            if v['rkey'] == KEX:
                versions.setdefault(v['uid'], []).append(v)
        for uid, vers in versions.items():
            def matched(v):
                body = v['body']
                vs = {'labels': body['metadata'].get('labels') or {}}
                for h in handlers.values():
                    if h['kind'] == 'event':
                        continue
                    if not l2_expected(h, vs):
                        continue
                    return True
                return False
            if not any(matched(v) for v in vers if v['writer'] == 'env'):
                writes = [v for v in vers if v['writer'] != 'env']
                if writes:
                    res.fail('C15/L2-unmatched-object-written',
                             f'{vers[0]["name"]} ({uid}) never matched the label/when criteria of any change handler, yet the operator wrote to it: '
                             f'{writes[0]["body"]["metadata"].get("annotations")} finalizers={writes[0]["body"]["metadata"].get("finalizers")}')
                res.label('L2-unmatched-object')
        res.label('L2')
        res.summary = cl.summarize(run, max_calls=15)
        res.nontrivial = any('labels' in h or 'when' in h for h in handlers.values()) and len(sim.trace) > 2
    finally:
        run.close()


# ------------------------------------------------------------------------------------------ driver
def run_case(sc):
    res = CaseResult()
    if sc.get('mode') == 'L2':
        run_l2(sc, res)
        return res
    if sc.get('mode') == 'L3':
        from props import c15sel
        c15sel.run_l3(sc, res)
        return res
    decl, state, ck = sc['decl'], sc['state'], sc['cause']
    expected = judge(decl, state, ck, res)
    res.nontrivial = expected is not None and nontrivial_l1(decl, state, ck, expected)
    _route_known(res, decl, state, ck)
    return res


def _route_known(res, decl, state, ck):
    """Known findings are identified by an executable predicate over the failing case (never by message text)."""
    keep = []
    for v in res.violations:
        if v['sig'] == 'C15/L1-selection':
            fid = classify_known(decl, state, ck)
            if fid:
                res.known.append({'id': fid, 'msg': v['msg']})
                continue
        keep.append(v)
    res.violations = keep


def classify_known(decl, state, ck):
    non_update = not (decl['kind'] in ('update', 'field') and ck == 'update')
    has_value = decl['value'] not in ('nofield',)
    if non_update and has_value and decl['kind'] in ('create', 'delete', 'resume'):
        # would the reference agree if value= were matched against old-or-new as for updates?
        if reference_match_old_or_new(decl, state, ck) == bool(real_match(decl, state, ck)):
            return FINDING_F
    return None


def reference_match_old_or_new(decl, state, ck):
    base = dict(decl, value='nofield', old=None, new=None)
    if not reference_match(base, state, ck):
        return False
    crit = PRESENT if decl['value'] == 'fieldonly' else decl['value']
    new_p, new_v = state['new'] is not None, state['new']
    old_p, old_v = (state.get('old') is not None, state.get('old')) if ck != 'create' else (False, None)
    return crit_ok(crit, new_p, new_v) or crit_ok(crit, old_p, old_v)


def run_shard(ctx):
    from runner.pbt import digest
    tier, shard, nshards = ctx['tier'], ctx['shard'], ctx['nshards']
    known_ids = set(ctx['known_ids'])
    out = dict(evaluations=0, nontrivial=set(), classes={}, samples=[], violations=[], known={}, harness_errors=[])
    limit = ctx['examples'] or BUDGET[tier]
    total = l1_size()
    exhaustive = tier == 'thorough' and ctx['examples'] is None
    # the quick tier evaluates a pseudo-random sample: 1 of `dd` declarations (by a hash of its number and the seed), and for each
    # of them 1 of 4 (cause, state) combinations; the thorough tier evaluates everything.
    n_decls = sum(1 for _ in l1_decls())
    per_decl = total / n_decls
    dd = max(1, int(n_decls * per_decl / 4 / max(1, (limit or 6000) * nshards)))
    seen_sigs = set()

    def selected():
        for j, (decl, cks) in enumerate(l1_decls()):
            if j % nshards != shard:
                continue
            if not exhaustive and mix(j, ctx['base_seed']) % dd != 0:
                continue
            k = 0
            for ck in cks:
                for state in l1_states(decl['kind'], ck):
                    k += 1
                    if exhaustive or mix(j, k, ctx['base_seed']) % 4 == 0:
                        yield decl, state, ck
    for decl, state, ck in selected():
        sc = {'decl': decl, 'state': state, 'cause': ck}
        res = run_case(sc)
        out['evaluations'] += 1
        key = f'L1-kind:{decl["kind"]}'
        out['classes'][key] = out['classes'].get(key, 0) + 1
        if 0 in (decl['value'], decl['old'], decl['new']) or decl['labels'] == '':
            out['classes']['L1-falsy-criterion'] = out['classes'].get('L1-falsy-criterion', 0) + 1
        if res.nontrivial:
            out['nontrivial'].add(digest(sc))
            out['classes']['nontrivial'] = out['classes'].get('nontrivial', 0) + 1
            if len(out['samples']) < 2:
                out['samples'].append({'scenario': sc, 'observed': {'expected_selected': reference_match(decl, state, ck)}})
        for k in res.known:
            if k['id'] in known_ids:
                slot = out['known'].setdefault(k['id'], {'count': 0, 'example': k['msg']})
                slot['count'] += 1
            else:
                res.violations.append({'sig': 'unlisted-finding:' + k['id'], 'msg': k['msg']})
        for v in res.violations:
            if v['sig'] not in seen_sigs:
                seen_sigs.add(v['sig'])
                out['violations'].append({'scenario': sc, 'violations': [v], 'sig': v['sig']})
    out['extra'] = {'l1_space_size': total, 'exhaustive': exhaustive}
    out['nontrivial'] = sorted(out['nontrivial'])
    # L2
    n2 = L2_BUDGET[tier] if ctx['examples'] is None else max(2, ctx['examples'] // 500)
    l2 = explore(l2_scenarios(), run_case, seed=ctx['seed'], max_examples=n2, tier=tier, known_ids=ctx['known_ids'])
    out['evaluations'] += l2['evaluations']
    out['nontrivial'] = sorted(set(out['nontrivial']) | set(l2['nontrivial']))
    for k, v in l2['classes'].items():
        out['classes'][k] = out['classes'].get(k, 0) + v
    out['samples'] += l2['samples'][:1]
    out['violations'] += l2['violations']
    out['harness_errors'] += l2['harness_errors']
    # L3: the resource-selector criterion
    from props import c15sel
    n3 = L3_BUDGET[tier] if ctx['examples'] is None else max(5, ctx['examples'] // 40)
    l3 = explore(c15sel.l3_scenarios(), run_case, seed=ctx['seed'] + 7, max_examples=n3, tier=tier, known_ids=ctx['known_ids'],
                 shrink_keys=('rescans', 'cluster', 'handlers'))
    out['evaluations'] += l3['evaluations']
    out['nontrivial'] = sorted(set(out['nontrivial']) | set(l3['nontrivial']))
    for k, v in l3['classes'].items():
        out['classes'][k] = out['classes'].get(k, 0) + v
    out['samples'] += l3['samples'][:1]
    out['violations'] += l3['violations']
    for part in (l2, l3):
        for fid, slot in part['known'].items():
            mine = out['known'].setdefault(fid, {'count': 0, 'example': slot['example']})
            mine['count'] += slot['count']
    out['harness_errors'] += l3['harness_errors']
    return out
