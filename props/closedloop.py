"""Shared closed-loop machinery: scenario strategies, the interpreter, and independent readers of
what kopf persists on objects (written from the documented formats, not from kopf's code)."""
import copy
import json

from hypothesis import strategies as st

from kopfsim.sim import KEX, ResDef, Sim
from kopfsim.world import Livelock

FINALIZER = 'kopf.zalando.org/KopfFinalizerMarker'
EPS = (1e-10, 1e-6, 1e-3)


# --------------------------------------------------------------------------------- time palettes
def palette(thresholds, small=(0.0, 0.01, 0.5, 1.0, 3.0), large=(30.0, 90.0)):
    vals = set(small) | set(large)
    for t in thresholds:
        if t is None or t <= 0:
            continue
        vals.update([t, 2 * t, t / 2])
        for e in EPS:
            vals.update([t - e, t + e])
    return sorted(v for v in vals if v >= 0)


def times(thresholds, max_value=120.0):
    pal = palette(thresholds)
    return st.one_of(st.sampled_from(pal), st.floats(min_value=0, max_value=max_value, allow_nan=False).map(lambda x: round(x, 3)))


# --------------------------------------------------------------------------------- storages
PREFIXES = ['kopf.zalando.org', 'op.example.com']


@st.composite
def storage_cfgs(draw):
    prefix = draw(st.sampled_from(PREFIXES))
    v1 = draw(st.booleans())
    pk = draw(st.sampled_from(['smart', 'smart', 'annotations', 'status', 'multi']))
    if pk == 'smart':
        progress = {'kind': 'smart', 'prefix': prefix, 'v1': v1}
    elif pk == 'annotations':
        progress = {'kind': 'annotations', 'prefix': prefix, 'v1': v1}
    elif pk == 'status':
        progress = {'kind': 'status'}
    else:
        progress = {'kind': 'multi', 'storages': [{'kind': 'annotations', 'prefix': prefix, 'v1': v1}, {'kind': 'status'}]}
    dk = draw(st.sampled_from(['annotations', 'annotations', 'status', 'multi']))
    if dk == 'annotations':
        diffbase = {'kind': 'annotations', 'prefix': prefix, 'v1': v1}
    elif dk == 'status':
        diffbase = {'kind': 'status'}
    else:
        diffbase = {'kind': 'multi', 'storages': [{'kind': 'annotations', 'prefix': prefix, 'v1': v1}, {'kind': 'status'}]}
    return progress, diffbase


def _ann_key(prefix, hid):
    return f'{prefix}/' + hid.replace('/', '.')


def read_progress(body, cfg, hid):
    """The progress record of handler ``hid`` as persisted on ``body`` (independent reader), or None."""
    cfg = cfg or {'kind': 'smart'}
    kind = cfg['kind']
    if kind in ('annotations', 'smart'):
        prefix = cfg.get('prefix', 'kopf.zalando.org')
        raw = ((body.get('metadata') or {}).get('annotations') or {}).get(_ann_key(prefix, hid))
        if raw is not None:
            return json.loads(raw)
        if kind == 'smart':
            return read_progress(body, {'kind': 'status'}, hid)
        return None
    if kind == 'status':
        rec = (((body.get('status') or {}).get(cfg.get('name', 'kopf')) or {}).get('progress') or {}).get(hid)
        return rec
    if kind == 'multi':
        for sub in cfg['storages']:
            rec = read_progress(body, sub, hid)
            if rec is not None:
                return rec
        return None
    raise ValueError(kind)


def raw_progress_keys(body, cfg, ids):
    """Every physical place where a record of one of ``ids`` is present (for purge completeness)."""
    out = []
    cfg = cfg or {'kind': 'smart'}
    kind = cfg['kind']
    if kind == 'multi':
        for sub in cfg['storages']:
            out += raw_progress_keys(body, sub, ids)
        return out
    if kind in ('annotations', 'smart'):
        prefix = cfg.get('prefix', 'kopf.zalando.org')
        anns = (body.get('metadata') or {}).get('annotations') or {}
        out += [('ann', _ann_key(prefix, h)) for h in ids if _ann_key(prefix, h) in anns]
        # ...and every other annotation of that prefix that *looks* like a progress record, whatever its name (lengthy ids are
        # also stored under a shortened, hashed name: recognised by content, not by re-implementing the naming scheme)
        named = {_ann_key(prefix, h) for h in ids}
        for k, v in anns.items():
            if k.startswith(prefix + '/') and k not in named and isinstance(v, str) and v.startswith('{'):
                try:
                    rec = json.loads(v)
                except ValueError:
                    continue
                if isinstance(rec, dict) and ({'started', 'stopped', 'success', 'failure', 'retries', 'purpose'} & set(rec)):
                    out.append(('ann-other-name', k))
    if kind in ('status', 'smart'):
        prog = ((body.get('status') or {}).get(cfg.get('name', 'kopf')) or {}).get('progress') or {}
        out += [('status', h) for h in ids if h in prog]
    return out


def read_last_handled(body, cfg):
    cfg = cfg or {'kind': 'annotations'}
    kind = cfg['kind']
    if kind == 'annotations':
        prefix = cfg.get('prefix', 'kopf.zalando.org')
        raw = ((body.get('metadata') or {}).get('annotations') or {}).get(f'{prefix}/{cfg.get("key", "last-handled-configuration")}')
        return json.loads(raw) if raw is not None else None
    if kind == 'status':
        raw = ((body.get('status') or {}).get(cfg.get('name', 'kopf')) or {}).get('last-handled-configuration')
        return json.loads(raw) if raw is not None else None
    if kind == 'multi':
        for sub in cfg['storages']:
            r = read_last_handled(body, sub)
            if r is not None:
                return r
        return None
    raise ValueError(kind)


def storage_prefixes(progress_cfg, diffbase_cfg):
    out = set()
    for cfg in (progress_cfg, diffbase_cfg):
        stack = [cfg] if cfg else []
        while stack:
            c = stack.pop()
            if c['kind'] == 'multi':
                stack += c['storages']
            elif c['kind'] in ('annotations', 'smart'):
                out.add(c.get('prefix', 'kopf.zalando.org'))
    return out or {'kopf.zalando.org'}


def essence(body, prefixes=('kopf.zalando.org',)):
    """Independent reading of 'essential state': everything but status and system metadata; of the
    metadata only labels and ordinary annotations (not kopf's own, not kubectl's last-applied)."""
    out = {k: copy.deepcopy(v) for k, v in body.items() if k not in ('metadata', 'status', 'apiVersion', 'kind')}
    meta = body.get('metadata') or {}
    m = {}
    if meta.get('labels'):
        m['labels'] = dict(meta['labels'])
    anns = {k: v for k, v in (meta.get('annotations') or {}).items()
            if not any(k.startswith(p + '/') for p in prefixes)
            and not k.split('/')[0].endswith('kopf.zalando.org')
            and k != 'kubectl.kubernetes.io/last-applied-configuration'}
    if anns:
        m['annotations'] = anns
    if m:
        out['metadata'] = m
    return out


# --------------------------------------------------------------------------------- handler specs
def outcome_scripts(delays, max_len=3, kinds=('ok', 'temp', 'perm', 'err')):
    step = st.one_of(
        st.just({'o': 'ok'}),
        st.builds(lambda d: {'o': 'temp', 'delay': d}, delays),
        st.just({'o': 'perm'}),
        st.just({'o': 'err'}),
        st.builds(lambda d: {'o': 'temp', 'delay': d, 'sub': True}, delays),      # an operator's own subclass of TemporaryError
        st.just({'o': 'perm', 'sub': True}),
    ).filter(lambda s: s['o'] in kinds)
    return st.lists(step, max_size=max_len)


# --------------------------------------------------------------------------------- environment actions
OBJECTS = ['o0', 'o1', 'o2', 'o3']


def env_actions(dts, n_objects=2, with_delete=True, with_recreate=False, with_finalizers=False,
                with_labels=False):
    objs = st.integers(0, n_objects - 1)
    vals = st.integers(0, 5)
    acts = [
        st.builds(lambda o, v, dt: {'a': 'create', 'obj': o, 'v': v, 'dt': dt}, objs, vals, dts),
        st.builds(lambda o, v, dt, e: {'a': 'create', 'obj': o, 'v': v, 'dt': dt, 'empty': e}, objs, vals, dts, st.booleans()),
        st.builds(lambda o, v, dt: {'a': 'edit_spec', 'obj': o, 'v': v, 'dt': dt}, objs, vals, dts),
        st.builds(lambda o, v, dt: {'a': 'edit_spec', 'obj': o, 'v': v, 'dt': dt}, objs, vals, dts),
        st.builds(lambda o, v, dt: {'a': 'edit_status', 'obj': o, 'v': v, 'dt': dt}, objs, vals, dts),
        st.builds(lambda o, v, dt: {'a': 'annotate', 'obj': o, 'v': v, 'dt': dt}, objs, vals, dts),
        st.builds(lambda dt: {'a': 'advance', 'dt': dt}, dts),
    ]
    if with_labels:
        acts.append(st.builds(lambda o, v, dt: {'a': 'label', 'obj': o, 'v': v, 'dt': dt}, objs, st.sampled_from(['yes', 'no', None]), dts))
    if with_delete:
        acts.append(st.builds(lambda o, dt: {'a': 'delete', 'obj': o, 'dt': dt}, objs, dts))
    if with_recreate:
        acts.append(st.builds(lambda o, v, dt: {'a': 'recreate', 'obj': o, 'v': v, 'dt': dt}, objs, vals, dts))
    if with_finalizers:
        acts.append(st.builds(lambda o, n, dt: {'a': 'add_finalizer', 'obj': o, 'n': n, 'dt': dt}, objs, st.sampled_from(['f/a', 'f/b']), dts))
        acts.append(st.builds(lambda o, n, dt: {'a': 'remove_finalizer', 'obj': o, 'n': n, 'dt': dt}, objs, st.sampled_from(['f/a', 'f/b']), dts))
        acts.append(st.builds(lambda o, dt: {'a': 'reorder_finalizers', 'obj': o, 'dt': dt}, objs, dts))
    return st.one_of(*acts)


def process_actions(dts, kill=True, graceful=True):
    acts = [st.builds(lambda dt: {'a': 'restart', 'how': 'stop', 'down': dt, 'dt': 0.0}, dts)] if graceful else []
    if kill:
        acts.append(st.builds(lambda dt: {'a': 'restart', 'how': 'kill', 'down': dt, 'dt': 0.0}, dts))
        acts.append(st.builds(lambda n, when, dt: {'a': 'arm_kill', 'nth': n, 'when': when, 'dt': dt},
                              st.integers(0, 6), st.sampled_from(['kill_before', 'kill_after']), dts))
    return st.one_of(*acts)


# --------------------------------------------------------------------------------- the interpreter
class Run:
    """Executes a closed-loop scenario. After run(), inspect .sim (trace, cluster.history, requests)."""

    def __init__(self, scenario):
        self.sc = scenario
        cl = scenario.get('cluster', {})
        self.status_sub = cl.get('status_sub', False)
        resources = [ResDef('kopf.dev', 'v1', 'kopfexamples', 'KopfExample', status_sub=self.status_sub)]
        for extra in cl.get('extra_resources', []):
            resources.append(ResDef(*extra['gvp'], extra['kind'], namespaced=extra.get('namespaced', True),
                                    status_sub=extra.get('status_sub', False), shortnames=tuple(extra.get('shortnames') or ()),
                                    categories=tuple(extra.get('categories') or ()), singular=extra.get('singular')))
        if cl.get('kex_names'):
            resources[0].shortnames = tuple(cl['kex_names'].get('shortnames') or ())
            resources[0].categories = tuple(cl['kex_names'].get('categories') or ())
        quirks = {k: v for k, v in cl.items() if k.startswith('quirk_')}
        if cl.get('rv0') is not None:
            quirks['rv'] = cl['rv0']      # where the cluster's resource versions start (a history may cross a power of ten)
        self.sim = Sim(resources=resources, seed=scenario.get('seed', 0), namespaces=tuple(cl.get('namespaces') or ('default',)), **quirks)
        self.cluster = self.sim.cluster
        self.cluster.chunking = cl.get('chunking')
        wl = cl.get('watch_latency')
        if wl:
            self._wl = list(wl) if isinstance(wl, (list, tuple)) else [wl]
            self._wl_i = 0
            only = cl.get('watch_latency_plural', 'kopfexamples')

            def latency(watch, ev):
                if only is not None and watch.rkey[2] != only:
                    return 0.0
                v = self._wl[self._wl_i % len(self._wl)]
                self._wl_i += 1
                return v
            self.cluster.watch_latency = latency
        al = cl.get('api_latency')
        if al:
            self.cluster.api_latency = lambda req: al if 'patch' in req['classes'] else 0.0
        rl = cl.get('rsp_latency')
        if rl:
            self.cluster.rsp_latency = lambda req: rl if 'patch' in req['classes'] else 0.0
        self.inc_no = 0
        self.current = None
        self.performed = []      # (t, action, effective?)
        self.incarnations = []   # dict(name, t_start, t_end, how)
        self.livelock = None
        self.op_kwargs = scenario.get('op_kwargs', {})

    # -- operators
    def start(self):
        if self.current is not None and self.sim.ops[self.current].alive:
            return
        self.inc_no += 1
        name = f'A{self.inc_no}'
        self.sim.start(name, self.sc['spec'], **self.op_kwargs)
        self.current = name
        self.incarnations.append(dict(name=name, t_start=self.sim.world.now, t_end=None, how=None))

    def _end(self, how):
        if self.incarnations and self.incarnations[-1]['t_end'] is None:
            self.incarnations[-1].update(t_end=self.sim.world.now, how=how)

    def op(self):
        return self.sim.ops.get(self.current) if self.current else None

    def sync_exits(self):
        op = self.op()
        if op is not None and self.incarnations and self.incarnations[-1]['t_end'] is None:
            if op.killed_at is not None:
                self.incarnations[-1].update(t_end=op.killed_at, how='kill')
            elif op.exit is not None:
                self.incarnations[-1].update(t_end=op.exited_at, how=self.incarnations[-1].get('asked') or 'exit')

    def advance(self, dt):
        try:
            self.sim.run_for(dt)
        except Livelock as e:
            self.livelock = str(e)
            raise
        self.sync_exits()

    # -- environment
    def key(self, i):
        return (KEX, 'default', OBJECTS[i])

    def do(self, act):
        a = act['a']
        cl = self.cluster
        t = self.sim.world.now
        eff = True
        if a == 'create':
            body = {} if act.get('empty') else {'spec': {'f': act['v']}}     # 'empty': an object with an empty essence
            eff = cl.create(KEX, 'default', OBJECTS[act['obj']], body) is not None
        elif a == 'edit_spec':
            eff = cl.edit(*self.key(act['obj']), lambda b: b.setdefault('spec', {}).update(f=act['v'])) is not None
        elif a == 'xcreate':      # an object of another kind: act['gvp'], act['ns'] (None for cluster-scoped kinds)
            eff = cl.create(tuple(act['gvp']), act.get('ns'), act['name'], {'spec': {'f': act['v']}}) is not None
        elif a == 'xedit':
            eff = cl.edit(tuple(act['gvp']), act.get('ns'), act['name'], lambda b: b.setdefault('spec', {}).update(f=act['v'])) is not None
        elif a == 'edit_status':
            eff = cl.edit(*self.key(act['obj']), lambda b: b.setdefault('status', {}).update(foreign=act['v'])) is not None
        elif a == 'annotate':
            eff = cl.edit(*self.key(act['obj']), lambda b: b['metadata'].setdefault('annotations', {}).update({'example.com/note': str(act['v'])})) is not None
        elif a == 'edit_field':
            # any field by path; value None removes the key
            def fn(b):
                d = b
                for key in act['path'][:-1]:
                    if not isinstance(d.get(key), dict):
                        d[key] = {}
                    d = d[key]
                if act['v'] is None:
                    d.pop(act['path'][-1], None)
                else:
                    d[act['path'][-1]] = copy.deepcopy(act['v'])
            eff = cl.edit(*self.key(act['obj']), fn) is not None
        elif a == 'annotate_raw':
            # any annotation, kopf's own included (somebody edits or damages what the operator persists): value None removes it
            def fn(b):
                anns = b['metadata'].setdefault('annotations', {})
                if act['value'] is None:
                    anns.pop(act['key'], None)
                else:
                    anns[act['key']] = act['value']
            eff = cl.edit(*self.key(act['obj']), fn) is not None
        elif a == 'label':
            def fn(b):
                labels = b['metadata'].setdefault('labels', {})
                if act['v'] is None:
                    labels.pop('on', None)
                else:
                    labels['on'] = act['v']
            eff = cl.edit(*self.key(act['obj']), fn) is not None
        elif a == 'delete':
            eff = cl.delete(*self.key(act['obj'])) is not None
        elif a == 'recreate':
            k = self.key(act['obj'])
            if k in cl.objects:
                cl.delete(*k, force=True)
            cl.create(KEX, 'default', OBJECTS[act['obj']], {'spec': {'f': act['v']}})
        elif a == 'clone':
            # a user re-applies an exported manifest under another name: spec, labels and *all* annotations are copied
            src = cl.objects.get(self.key(act['obj']))
            if src is None or self.key(act['to']) in cl.objects:
                eff = False
            else:
                body = {'spec': copy.deepcopy(src.get('spec', {})), 'metadata': {}}
                for f in ('labels', 'annotations'):
                    if src['metadata'].get(f):
                        body['metadata'][f] = dict(src['metadata'][f])
                eff = cl.create(KEX, 'default', OBJECTS[act['to']], body) is not None
        elif a == 'add_finalizer':
            def fn(b):
                fins = b['metadata'].setdefault('finalizers', [])
                if act['n'] not in fins:
                    if act.get('front'):
                        fins.insert(0, act['n'])
                    else:
                        fins.append(act['n'])
            eff = cl.edit(*self.key(act['obj']), fn) is not None
        elif a == 'remove_finalizer':
            def fn(b):
                fins = b['metadata'].get('finalizers', [])
                if act['n'] in fins:
                    fins.remove(act['n'])
            eff = cl.edit(*self.key(act['obj']), fn) is not None
        elif a == 'reorder_finalizers':
            def fn(b):
                fins = b['metadata'].get('finalizers', [])
                fins.reverse()
            eff = cl.edit(*self.key(act['obj']), fn) is not None
        elif a == 'advance':
            pass
        elif a == 'restart':
            op = self.op()
            if op is not None and op.alive:
                if act['how'] == 'kill':
                    self.sim.kill(self.current)
                    self._end('kill')
                else:
                    self.sim.stop(self.current)
                    self.incarnations[-1]['asked'] = 'stop'
                    self.advance(act.get('grace', 30.0))
                    if self.sim.ops[self.current].alive:
                        self.sim.kill(self.current)    # did not stop in time: the pod is killed
                        self._end('stop+kill')
                    else:
                        self._end('stop')
            self.advance(act.get('down', 0.0))
            self.start()
        elif a == 'downtime':
            op = self.op()
            if op is not None and op.alive:
                if act['how'] == 'kill':
                    self.sim.kill(self.current)
                    self._end('kill')
                else:
                    self.sim.stop(self.current)
                    self.incarnations[-1]['asked'] = 'stop'
                    self.advance(act.get('grace', 30.0))
                    if self.sim.ops[self.current].alive:
                        self.sim.kill(self.current)
                        self._end('stop+kill')
                    else:
                        self._end('stop')
            self.downtimes = getattr(self, 'downtimes', [])
            t_from = self.sim.world.now
            for sub in act.get('edits', []):
                self.do(sub)
            self.advance(act.get('down', 0.0))
            self.downtimes.append((t_from, self.sim.world.now))
            self.start()
        elif a == 'stop_only':
            op = self.op()
            if op is not None and op.alive:
                self.sim.stop(self.current)
                self.incarnations[-1]['asked'] = 'stop'
        elif a == 'start':
            self.start()
        elif a == 'arm_kill':
            if self.current:
                from kopfsim.cluster import Fault
                seen = sum(1 for r in cl.requests if r['client'] == self.current and 'patch' in r['classes'])
                cl.faults.append(Fault({'on': 'patch', 'client': self.current, 'nth': act['nth'], 'do': act['when']}))
        elif a == 'break_watches':
            cl.break_watches(rkey=KEX, kind=act.get('kind', 'eof'))
        elif a == 'compact':
            if act.get('edit') is not None:
                # a change that no stream conveys: the streams break, the object changes, and the history is compacted before
                # the operator has reconnected (all at one instant): it can see the change only in its next listing
                cl.break_watches(rkey=KEX)
                eff = cl.edit(*self.key(act['edit']['obj']), lambda b: b.setdefault('spec', {}).update(f=act['edit']['v'])) is not None
            cl.rv += 1                 # (something else in the cluster moved on; the history of this kind is compacted up to here)
            cl.compact(KEX)
            cl.break_watches(rkey=KEX)
        elif a == 'fault':
            from kopfsim.cluster import Fault
            cl.faults.append(Fault(act['spec']))
        else:
            raise ValueError(a)
        self.performed.append((t, act, eff))
        if act.get('dt'):
            self.advance(act['dt'])
        else:
            self.advance(0.0)

    def run(self):
        sc = self.sc
        for act in sc.get('pre', []):
            self.do(act)
        if sc.get('autostart', True):
            self.start()
            self.advance(sc.get('warmup', 1.0))
        for act in sc.get('actions', []):
            self.do(act)
            # a killed operator (fault-triggered) is restarted after the scenario's downtime
            op = self.op()
            if op is not None and not op.alive and sc.get('auto_restart', True):
                self.sync_exits()
                self.advance(sc.get('restart_after', 1.0))
                self.start()
        return self

    def quiesce(self, bound):
        """Disarm faults, make sure an operator runs, and let time pass."""
        self.cluster.faults.clear()
        op = self.op()
        if op is None or not op.alive:
            self.sync_exits()
            self.start()
        self.t_quiesce = self.sim.world.now
        self.advance(bound)
        op = self.op()
        if op is not None and not op.alive and self.sc.get('auto_restart', True):
            # killed by a still-armed fault just before: start again and wait again
            self.sync_exits()
            self.start()
            self.advance(bound)

    def close(self):
        self.sim.close()


def summarize(run, max_calls=40):
    sim = run.sim
    calls = [(r['inc'], r['hid'], r.get('name'), round(r['t0'], 6), r.get('retry'), r.get('reason'), r['outcome'], r.get('rv'))
             for r in sim.trace if r.get('kind') not in ('login',)][:max_calls]
    return {'calls': calls, 'requests': len(sim.cluster.requests),
            'versions': len([h for h in sim.cluster.history if h['rkey'] == KEX]),
            'incarnations': [(i['name'], i['t_start'], i['t_end'], i['how']) for i in run.incarnations],
            'virtual_time': sim.world.now}
