"""C16 — Persistence storages round-trip, isolate and produce valid annotation names."""
import copy
import json
import os
import re
import subprocess
import sys

from hypothesis import strategies as st

from kopfsim import rfc
from runner.pbt import CaseResult, explore

ID = 'C16'
LEVEL = 'exploration'
RULE = ('model-based operation sequences: Hypothesis generates a storage configuration (class x prefix x v1/v2), a body '
        '(incl. ReplicaSets owned by Deployments, other handlers\'/prefixes\'/user data) and a list of store/purge/touch/'
        'diff-base/foreign-edit steps over handler ids from [A-Za-z0-9_./<>-]{1,300} (sub-handler paths, field suffixes, pairs '
        'sharing a >=63-char prefix); every step goes through kopf\'s storage, its patch is applied by an independent RFC 7386 '
        'merge, and the result is compared with a dictionary model (round trip, purge, isolation) and the Kubernetes '
        'qualified-name grammar. Non-trivial: an id longer than 63-len(prefix) or containing one of "/<>", on a body that '
        'already holds foreign records; distinct by canonical JSON')
ASSUMPTIONS = [
    'patches are applied with an independent RFC 7386 implementation; the API server drops null values and empty annotation maps',
    'records have the nine keys kopf always writes (values may be None), as produced by HandlerState.for_storage()',
    'annotation-name validity = Kubernetes qualified name: optional DNS-subdomain prefix (<=253) + "/" + name (<=63, alnum at both ends, [-_.A-Za-z0-9] inside)',
    'name validity is only demanded when the prefix is <= 189 characters (documented limit)',
]
BUDGET = {'quick': 300, 'thorough': 4000}
FUZZ_RUNS = {'thorough': 8000}     # inputs per process of the coverage-guided stage (tools/fuzz.py), 16 processes
MAX_SHARDS = 16

ALPHABET = 'abcxyzABC019_./<>-'
ID_CHARS = st.sampled_from(list(ALPHABET))
NAME_RE = re.compile(r'^[A-Za-z0-9]([-_.A-Za-z0-9]*[A-Za-z0-9])?$')
DNS_RE = re.compile(r'^[a-z0-9]([-a-z0-9]*[a-z0-9])?(\.[a-z0-9]([-a-z0-9]*[a-z0-9])?)*$')
PREFIXES = ['kopf.zalando.org', 'my-op.example.com', 'a.b', 'x' * 60 + '.example.com', 'kopf.dev']


@st.composite
def handler_ids(draw):
    shape = draw(st.sampled_from(['short', 'short', 'path', 'field', 'long', 'longpair', 'edge']))
    if shape == 'short':
        return draw(st.text(ID_CHARS, min_size=1, max_size=12))
    if shape == 'path':
        return '/'.join(draw(st.lists(st.text(st.sampled_from(list('abcXYZ019_')), min_size=1, max_size=20), min_size=2, max_size=4)))
    if shape == 'field':
        return draw(st.sampled_from(['create_fn', 'update_fn', 'Outer.<locals>.inner'])) + '/spec.' + draw(st.text(st.sampled_from(list('abc.')), min_size=1, max_size=30))
    if shape == 'long':
        return draw(st.text(ID_CHARS, min_size=40, max_size=300))
    if shape == 'longpair':
        return 'p' * draw(st.integers(40, 80)) + draw(st.text(ID_CHARS, min_size=1, max_size=10))
    return draw(st.sampled_from(['a', 'a/b', 'a.b', 'a<b>', 'a_b_', 'x' * 63, 'x' * 64, 'y' * 45, 'y' * 46, 'y' * 47, 'z/' + 'q' * 61]))


RECORDS = st.fixed_dictionaries({
    'started': st.sampled_from([None, '2030-01-01T00:00:00.000000+00:00']),
    'stopped': st.sampled_from([None, '2030-01-01T00:00:01.000000+00:00']),
    'delayed': st.sampled_from([None, '2030-01-01T00:01:00.000000+00:00']),
    'purpose': st.sampled_from([None, 'create', 'update', 'resume']),
    'retries': st.one_of(st.none(), st.integers(0, 99)),
    'success': st.sampled_from([None, True, False]),
    'failure': st.sampled_from([None, True, False]),
    'message': st.one_of(st.none(), st.text(max_size=20), st.sampled_from(['ошибка ü  ', '"quoted" \\ back', 'x' * 200])),
    'subrefs': st.sampled_from([None, ['a/b', 'a/c'], ['p/' + 'q' * 70]]),
})

JSONV = st.recursive(st.one_of(st.none(), st.booleans(), st.integers(-3, 3), st.text(max_size=5)),
                     lambda ch: st.one_of(st.lists(ch, max_size=3), st.dictionaries(st.text(max_size=4), ch, max_size=3)), max_leaves=8)


@st.composite
def configs(draw):
    prefix = draw(st.sampled_from(PREFIXES))
    v1 = draw(st.booleans())
    name = draw(st.sampled_from(['kopf', 'myop']))
    ann = {'kind': 'annotations', 'prefix': prefix, 'v1': v1}
    if draw(st.booleans()):
        ann['verbose'] = True
    sta = {'kind': 'status', 'name': name}
    progress = draw(st.sampled_from([ann, ann, sta, {'kind': 'multi', 'storages': [ann, sta]},
                                     {'kind': 'smart', 'prefix': prefix, 'v1': v1, 'name': name}]))
    dann = {'kind': 'annotations', 'prefix': prefix, 'v1': v1}
    dsta = {'kind': 'status', 'name': name}
    diffbase = draw(st.sampled_from([dann, dann, dsta, {'kind': 'multi', 'storages': [dann, dsta]}]))
    return {'progress': progress, 'diffbase': diffbase, 'prefix': prefix, 'v1': v1}


@st.composite
def bodies(draw):
    anns = draw(st.dictionaries(st.sampled_from(['example.com/note', 'plain', 'other.example.org/h', 'other.example.org/kopf-managed',
                                                 'kopf.zalando.org/foreign-handler', 'my-op.example.com/zzz']),
                                st.sampled_from(['', 'v', '{"retries":3}']), max_size=3))
    meta = {'name': 'o', 'namespace': 'ns', 'uid': 'u1', 'resourceVersion': '9', 'annotations': anns, 'labels': {'app': 'x'}}
    kind = draw(st.sampled_from(['KopfExample', 'KopfExample', 'ReplicaSet']))
    if kind == 'ReplicaSet' or draw(st.integers(0, 5)) == 0:
        meta['ownerReferences'] = [{'kind': draw(st.sampled_from(['Deployment', 'Deployment', 'Job'])), 'name': 'd', 'uid': 'u0'}]
    body = {'apiVersion': 'apps/v1', 'kind': kind, 'metadata': meta, 'spec': draw(JSONV.filter(lambda v: isinstance(v, dict)))}
    if draw(st.booleans()):
        body['status'] = {'foreign': 1, 'kopf': {'progress': {'someone-else': {'retries': 1}}, 'dummy': 'x'}}
    return body


@st.composite
def scenarios(draw):
    ids = draw(st.lists(handler_ids(), min_size=1, max_size=4, unique=True))
    if draw(st.booleans()) and len(ids[0]) >= 40:
        ids.append(ids[0][:-1] + ('X' if ids[0][-1] != 'X' else 'Y'))
    n = len(ids)
    step = st.one_of(
        st.builds(lambda i, r: {'op': 'store', 'id': i, 'record': r}, st.integers(0, n - 1), RECORDS),
        st.builds(lambda i, r: {'op': 'store', 'id': i, 'record': r}, st.integers(0, n - 1), RECORDS),
        st.builds(lambda i: {'op': 'purge', 'id': i}, st.integers(0, n - 1)),
        st.builds(lambda v: {'op': 'touch', 'value': v}, st.sampled_from([None, '2030-01-01T00:00:00+00:00', 'x'])),
        st.builds(lambda e: {'op': 'diffbase', 'essence': e}, JSONV.filter(lambda v: isinstance(v, dict))),
        st.builds(lambda v: {'op': 'user', 'value': v}, st.sampled_from(['1', '2', ''])),
    )
    steps = draw(st.lists(step, min_size=1, max_size=8))
    if n >= 2 and draw(st.integers(0, 3)) == 0:
        # the shape of a closing handling cycle: some handlers' records are on the object already, another handler starts and
        # finishes within the final cycle (stored and purged in the same patch), and everything is purged in one patch
        persisted = draw(st.lists(st.integers(0, n - 1), min_size=1, max_size=n - 1, unique=True))
        fresh = [i for i in range(n) if i not in persisted]
        steps = [{'op': 'store', 'id': i, 'record': draw(RECORDS)} for i in persisted]
        final = [{'op': 'purge', 'id': i} for i in persisted]
        for j in draw(st.lists(st.sampled_from(fresh), min_size=1, max_size=len(fresh), unique=True)):
            k = draw(st.integers(0, len(final)))
            final[k:k] = [{'op': 'store', 'id': j, 'record': draw(RECORDS)}, {'op': 'purge', 'id': j}]
        if draw(st.booleans()):
            final.append({'op': 'diffbase', 'essence': draw(JSONV.filter(lambda v: isinstance(v, dict)))})
        steps += [dict(sp, join=bool(i)) for i, sp in enumerate(final)]
        return {'cfg': draw(configs()), 'body': draw(bodies()), 'ids': ids, 'steps': steps, 'shape': 'closing-cycle'}
    if draw(st.booleans()):
        # as a handling cycle does it: several operations accumulate in one patch before it is applied
        steps = [dict(sp, join=True) if i and draw(st.integers(0, 2)) else sp for i, sp in enumerate(steps)]
    return {'cfg': draw(configs()), 'body': draw(bodies()), 'ids': ids, 'steps': steps}


# ------------------------------------------------------------------------------------------ helpers
def safe(hid):
    return hid.replace('/', '.').replace('<', '_').replace('>', '_')


def drop_nones(d):
    return {k: v for k, v in d.items() if v is not None}


def apply_patch(body, patch):
    new = rfc.merge_patch(body, json.loads(json.dumps(dict(patch))))
    meta = new.setdefault('metadata', {})
    for f in ('annotations', 'labels'):
        if f in meta and not meta[f]:
            del meta[f]
    return new


def validate_names(patch, prefix, res, what):
    if len(prefix) > 189:
        return
    for key in ((patch.get('metadata') or {}).get('annotations') or {}):
        if '/' in key:
            pfx, name = key.split('/', 1)
        else:
            pfx, name = None, key
        bad = None
        if pfx is not None and (len(pfx) > 253 or not DNS_RE.match(pfx)):
            bad = f'prefix {pfx!r} is not a DNS subdomain'
        elif len(name) > 63:
            bad = f'name part is {len(name)} characters long (max 63)'
        elif not NAME_RE.match(name):
            bad = f'name part {name!r} does not match the qualified-name grammar'
        if bad:
            yield key, bad


FINDING_E = 'C16-E-ids-equal-after-safe-replacement'
FINDING_K = 'C16-K-name-starts-or-ends-with-non-alnum'


def is_k(hid, key):
    """Known finding K: the id's own first/last character (after the documented replacement) is not alphanumeric."""
    s = safe(hid)
    name = key.split('/', 1)[-1]
    starts_bad = not s[0].isalnum() and name.startswith(s[0])
    ends_bad = not s[-1].isalnum() and name == s      # only unhashed names end with the id's own last character
    inner = name.strip('_.-')
    return (starts_bad or ends_bad) and (not inner or NAME_RE.match(inner) is not None)


def run_case(sc):
    from kopf._cogs.structs import bodies as kbodies, patches
    from props.c04 import make_storages
    res = CaseResult()
    cfg = sc['cfg']
    progress, diffbase = make_storages(cfg)
    ids = sc['ids']
    body = copy.deepcopy(sc['body'])
    user_before = None
    model = {}            # id -> expected fetched record
    model_essence = 'unset'
    collide = {}
    for a in ids:
        for b in ids:
            if a < b and safe(a) == safe(b):
                collide.setdefault(a, set()).add(b)
                collide.setdefault(b, set()).add(a)

    def foreign_view(b):
        anns = dict((b.get('metadata') or {}).get('annotations') or {})
        keep = {k: v for k, v in anns.items() if k in ('example.com/note', 'plain', 'other.example.org/h', 'other.example.org/kopf-managed', 'example.com/user')
                or (k in ('kopf.zalando.org/foreign-handler', 'my-op.example.com/zzz') and not k.startswith(cfg['prefix'] + '/'))}
        status = copy.deepcopy(b.get('status') or {})
        foreign_status = {'foreign': status.get('foreign'), 'someone-else': ((status.get('kopf') or {}).get('progress') or {}).get('someone-else')}
        return keep, foreign_status, copy.deepcopy(b.get('spec')), dict((b.get('metadata') or {}).get('labels') or {})

    annotation_based = cfg['progress']['kind'] in ('annotations', 'smart', 'multi')
    ours = set()
    steps = sc['steps']
    batch_has_user = False
    for n, step in enumerate(steps):
        # one handling cycle accumulates several storage operations in one patch, all computed against the same body:
        # a step marked 'join' goes into the patch of the previous step; the patch is applied and judged when the batch ends
        joined = bool(step.get('join')) and n > 0
        if not joined:
            kbody = kbodies.Body(copy.deepcopy(body))
            patch = patches.Patch()
            before_foreign = foreign_view(body)
            batch_has_user = False
        else:
            res.label('several-operations-in-one-patch')
        op = step['op']
        batch_has_user = batch_has_user or op == 'user'
        keys_before = set((patch.get('metadata') or {}).get('annotations') or {})
        try:
            if op == 'store':
                hid = ids[step['id']]
                progress.store(key=hid, record=dict(step['record']), body=kbody, patch=patch)
                progress.flush()
            elif op == 'purge':
                hid = ids[step['id']]
                progress.purge(key=hid, body=kbody, patch=patch)
                progress.flush()
            elif op == 'touch':
                progress.touch(body=kbody, patch=patch, value=step['value'])
            elif op == 'diffbase':
                diffbase.store(body=kbody, patch=patch, essence=copy.deepcopy(step['essence']))
            elif op == 'user':
                patch.metadata.annotations['example.com/user'] = step['value']
        except Exception as e:
            res.fail('C16/raises', f'step {n} {step} raised {type(e).__name__}: {e}')
            return res
        fresh = {'metadata': {'annotations': {k: v for k, v in ((patch.get('metadata') or {}).get('annotations') or {}).items() if k not in keys_before}}}
        if op in ('store', 'purge'):
            ours.update(k for k in fresh['metadata']['annotations'] if not k.endswith('/kopf-managed'))
            for key, why in validate_names(fresh, cfg['prefix'], res, op):
                if is_k(hid, key):
                    res.known.append({'id': FINDING_K, 'msg': f'id {hid!r} -> annotation {key!r}: {why}'})
                else:
                    res.fail('C16/invalid-annotation-name', f'id {hid!r} with prefix {cfg["prefix"]!r} (v1={cfg["v1"]}) -> {key!r}: {why}')
        else:
            for key, why in validate_names(fresh, cfg['prefix'], res, op):
                res.fail('C16/invalid-annotation-name', f'{op} with prefix {cfg["prefix"]!r} -> {key!r}: {why}')
        # the model
        if op == 'store':
            verbose = cfg['progress'].get('verbose') and cfg['progress']['kind'] == 'annotations'
            model[hid] = dict(step['record']) if verbose else drop_nones(step['record'])
            for other in collide.get(hid, ()):
                if annotation_based:
                    model[other] = ('collision', hid)
        elif op == 'purge':
            model.pop(hid, None)
            for other in collide.get(hid, ()):
                if annotation_based:
                    model.pop(other, None)
        elif op == 'diffbase':
            model_essence = step['essence']
        if n + 1 < len(steps) and steps[n + 1].get('join'):
            continue          # the batch goes on
        body = apply_patch(body, patch)
        # compare: every id reads back what the model says; nothing foreign was touched
        kb = kbodies.Body(copy.deepcopy(body))
        for h in ids:
            try:
                got = progress.fetch(key=h, body=kb)
            except Exception as e:
                res.fail('C16/fetch-raises', f'fetch({h!r}) raised {type(e).__name__}: {e}')
                continue
            want = model.get(h)
            if isinstance(want, tuple):
                res.known.append({'id': FINDING_E, 'msg': f'ids {h!r} and {want[1]!r} map to the same annotation name; storing one overwrites the other'})
                continue
            if cfg['progress']['kind'] in ('multi', 'smart') and got is not None and want is not None:
                got = drop_nones(got)
            if got != want:
                if h in collide and annotation_based:
                    res.known.append({'id': FINDING_E, 'msg': f'ids {h!r} / {sorted(collide[h])} share an annotation name'})
                    continue
                res.fail('C16/round-trip' if want is not None else 'C16/isolation-or-purge',
                         f'after step {n} {step["op"]}: fetch({h!r}) = {got!r}, expected {want!r} (cfg {cfg["progress"]})')
        if model_essence != 'unset':
            try:
                got = diffbase.fetch(body=kb)
            except Exception as e:
                res.fail('C16/diffbase-fetch-raises', f'{type(e).__name__}: {e}')
                got = model_essence
            if got != model_essence:
                res.fail('C16/diffbase-round-trip', f'after step {n}: last-handled reads {got!r}, stored {model_essence!r}')
        after_foreign = foreign_view(body)
        if not batch_has_user and after_foreign != before_foreign:
            res.fail('C16/foreign-data-touched', f'step {n} {step["op"]} changed foreign data: {before_foreign} -> {after_foreign}')

    # purge restores: purging everything leaves no key of ours
    kb = kbodies.Body(copy.deepcopy(body))
    patch = patches.Patch()
    for h in ids:
        progress.purge(key=h, body=kb, patch=patch)
    final = apply_patch(body, patch)
    kb = kbodies.Body(copy.deepcopy(final))
    for h in ids:
        if progress.fetch(key=h, body=kb) is not None:
            res.fail('C16/purge-incomplete', f'after purging all ids, fetch({h!r}) still returns a record')
    anns = (final['metadata'].get('annotations') or {})
    left = sorted(k for k in ours if k in anns)
    if left:
        res.fail('C16/purge-leaves-keys', f'after purging all ids these annotations of ours remain: {left}')

    # names: deterministic across storage objects; distinct for distinct long ids sharing a prefix
    if annotation_based:
        from kopf._cogs.configs import progress as kprogress
        s1 = kprogress.AnnotationsProgressStorage(prefix=cfg['prefix'], v1=cfg['v1'])
        s2 = kprogress.AnnotationsProgressStorage(prefix=cfg['prefix'], v1=cfg['v1'])
        keys = {}
        for h in ids:
            k1, k2 = list(s1.make_keys(h)), list(s2.make_keys(h))
            if k1 != k2:
                res.fail('C16/unstable-names', f'{h!r}: {k1} vs {k2}')
            keys[h] = k1
        for a in ids:
            for b in ids:
                if a < b and len(a) > 63 and len(b) > 63 and os.path.commonprefix([a, b]) and len(os.path.commonprefix([a, b])) >= 63:
                    if keys[a][0] == keys[b][0]:
                        res.fail('C16/long-ids-collide', f'{a!r} and {b!r} share the annotation name {keys[a][0]!r}')
    long_or_special = any(len(h) > 63 - len(cfg['prefix']) or any(c in h for c in '/<>') for h in ids)
    foreign = bool(sc['body']['metadata'].get('annotations')) or 'status' in sc['body']
    res.nontrivial = long_or_special and foreign
    res.label('progress:' + cfg['progress']['kind'], 'diffbase:' + cfg['diffbase']['kind'])
    if sc['body']['kind'] == 'ReplicaSet' and any(o['kind'] == 'Deployment' for o in sc['body']['metadata'].get('ownerReferences', [])):
        res.label('replicaset-of-deployment')
    if any(len(h) > 63 for h in ids):
        res.label('id>63')
    if sc.get('shape'):
        res.label('shape:' + sc['shape'])
    if res.nontrivial:
        res.label('nontrivial')
    res.summary = {'final_annotations': sorted((body['metadata'].get('annotations') or {}))[:8]}
    return res


def cross_process_names():
    """Same names from a process with another hash seed (restart stability)."""
    ids = ['a', 'a/b', 'x' * 70, 'fn/spec.field', 'Outer.<locals>.inner/' + 'q' * 80]
    code = ("import sys, json; sys.path.insert(0, %r); from kopf._cogs.configs import progress as p; "
            "s = p.AnnotationsProgressStorage(prefix='my-op.example.com', v1=True); "
            "print(json.dumps([list(s.make_keys(i)) for i in %r]))") % (sys.path[0] if 'kopf' in sys.modules else os.environ.get('KOPF_SRC', '/repo'), ids)
    src = os.path.dirname(os.path.dirname(sys.modules['kopf'].__file__))
    code = code.replace(repr(sys.path[0]), repr(src))
    outs = []
    for seed in ('1', '4242'):
        env = dict(os.environ, PYTHONHASHSEED=seed)
        outs.append(subprocess.run([sys.executable, '-c', code], env=env, capture_output=True, text=True, timeout=60).stdout.strip())
    return outs[0] == outs[1] and outs[0] != '', outs


def run_shard(ctx):
    n = ctx['examples'] or BUDGET[ctx['tier']]
    out = explore(scenarios(), run_case, seed=ctx['seed'], max_examples=n, tier=ctx['tier'],
                  known_ids=ctx['known_ids'], shrink_keys=('steps',))
    if ctx['shard'] == 0:
        import kopf  # noqa: F401
        ok, outs = cross_process_names()
        out['classes']['cross-process-name-check'] = 1
        if not ok:
            out['violations'].append({'scenario': {'cross_process': True}, 'sig': 'C16/names-differ-across-processes',
                                      'violations': [{'sig': 'C16/names-differ-across-processes', 'msg': str(outs)[:500]}]})
    return out
