"""C18 — Admission responses faithfully reflect handler outcomes and requested mutations."""
import asyncio
import base64
import copy
import json

from hypothesis import strategies as st

from kopfsim import rfc
from runner.pbt import CaseResult, explore

ID = 'C18'
LEVEL = 'exploration'
RULE = ('Hypothesis-generated admission reviews: reviewed object x operation x subresource x webhook id/type hint x 1-4 '
        'validating/mutating handlers (operations, subresource, label/field/when filters) x outcomes (ok, AdmissionError(msg, '
        'code), Permanent, Temporary, arbitrary) x warnings x merge-style patch actions (set, overwrite, delete, nested merge, '
        'type changes, keys with "/" and "~") x transformation functions; serve_admission_request() is compared with a '
        'reference selection predicate, the error-specificity order, and an independent RFC 7386 merge + RFC 6902 applier. '
        'Non-trivial: >=2 selected handlers with different outcomes, or a patch with a delete / nested / type-changing entry; '
        'distinct by canonical JSON')
ASSUMPTIONS = [
    'hinted requests (webhook id given) carry an operation that the hinted handler declared: the API server enforces the '
    'operations of a managed webhook configuration, kopf itself does not re-check them (only the DELETE rule for mutating handlers)',
    'the returned JSON patch is decoded and applied with an own RFC 6902 implementation; the expectation is an own RFC 7386 merge '
    'of the accumulated patch followed by the transformation functions; both sides are compared after removing empty mappings',
    'handlers run in registration order (all_at_once lifecycle), so warnings and patch actions are ordered by registration',
]
BUDGET = {'quick': 1000, 'thorough': 20000}
FUZZ_RUNS = {'thorough': 8000}     # inputs per process of the coverage-guided stage (tools/fuzz.py), 16 processes
MAX_SHARDS = 16

KEYS = st.sampled_from(['a', 'b', 'c', 'a/b', 'm~n', '', 'x y', 'ключ', '0'])
SCALARS = st.one_of(st.booleans(), st.integers(-3, 3), st.sampled_from(['', 's', 'ü']))
VALUES = st.recursive(SCALARS, lambda ch: st.one_of(st.lists(ch, max_size=2), st.dictionaries(KEYS, ch, max_size=3)), max_leaves=6)
OBJ_DICTS = st.dictionaries(KEYS, VALUES, max_size=4)
OPERATIONS = ['CREATE', 'UPDATE', 'DELETE', 'CONNECT']


@st.composite
def patch_actions(draw):
    zone = draw(st.sampled_from(['spec', 'spec', 'status', 'metadata.labels', 'metadata.annotations']))
    if zone.startswith('metadata'):
        key = draw(st.sampled_from(['l1', 'example.com/k', 'a~b']))
        return {'zone': zone, 'path': [key], 'value': draw(st.sampled_from([None, 'v', '']))}
    path = draw(st.lists(KEYS, min_size=1, max_size=3))
    value = draw(st.one_of(st.none(), VALUES, st.just({})))
    return {'zone': zone, 'path': path, 'value': value}


@st.composite
def handler_specs(draw, i):
    h = {'id': f'h{i}', 'type': draw(st.sampled_from(['validating', 'mutating', 'mutating'])),
         'operations': draw(st.sampled_from([None, None, ['DELETE'], ['CREATE'], ['CREATE', 'UPDATE'], ['UPDATE', 'DELETE']])),
         'subresource': draw(st.sampled_from([None, None, '*', 'status', 'scale'])),
         'labels': draw(st.sampled_from([None, None, {'l': 'a'}, {'l': '@present'}, {'l': '@absent'}])),
         'when': draw(st.sampled_from([None, None, '@cb:true', '@cb:false'])),
         'field': draw(st.sampled_from([None, None, None, 'present', 'is1', 'absent'])),
         'outcome': draw(st.sampled_from(['ok', 'ok', 'ok', 'admission', 'admission', 'perm', 'temp', 'err'])),
         # (operators raise their own subclasses of kopf's error classes: they are admission/permanent/temporary errors just as well)
         'subclass': draw(st.booleans()),
         'message': draw(st.sampled_from(['', 'denied', 'нельзя', 'x' * 30])),
         'code': draw(st.sampled_from([None, 0, 400, 403, 422, 500])),
         'warnings': draw(st.lists(st.sampled_from(['w1', 'w2', 'ü-warn', '']), max_size=2)),
         'patch': draw(st.lists(patch_actions(), max_size=3)),
         'fns': draw(st.lists(st.sampled_from(['append', 'setflag', 'dropkey']), max_size=2))}
    if h['type'] == 'validating':
        h['patch'], h['fns'] = [], []
    return h


@st.composite
def scenarios(draw):
    n = draw(st.integers(1, 4))
    handlers = [draw(handler_specs(i)) for i in range(n)]
    obj = {'apiVersion': 'kopf.dev/v1', 'kind': 'KopfExample',
           'metadata': {'name': 'x', 'namespace': 'ns', 'uid': 'u'}, 'spec': draw(OBJ_DICTS)}
    label = draw(st.sampled_from([None, 'a', 'b']))
    if label is not None:
        obj['metadata']['labels'] = {'l': label}
    if draw(st.booleans()):
        obj['metadata']['annotations'] = {'example.com/k': 'old'}
    if draw(st.booleans()):
        obj['status'] = draw(OBJ_DICTS)
    f = draw(st.sampled_from(['absent', 1, 2]))
    if f != 'absent':
        obj['spec']['f'] = f
    if draw(st.integers(0, 3)) == 0:
        # a pure type change of an existing value: what Python calls equal (1 == True, 0 == False) JSON does not
        muts = [h for h in handlers if h['type'] == 'mutating']
        if muts:
            key, old_v, new_v = draw(st.sampled_from([('a', 1, True), ('b', 0, False), ('c', True, 1), ('0', False, 0), ('a', [1, 0], [True, False])]))
            obj['spec'][key] = old_v
            draw(st.sampled_from(muts))['patch'].append({'zone': 'spec', 'path': [key], 'value': new_v})
    hint = draw(st.sampled_from([None, None, 'id', 'id', 'type']))
    sc = {'object': obj, 'handlers': handlers, 'operation': draw(st.sampled_from(OPERATIONS)),
          'subresource': draw(st.sampled_from([None, None, 'status', 'scale'])),
          'hint_type': None, 'hint_id': None, 'dryrun': draw(st.booleans()),
          # what spec.f was before an UPDATE: the criteria of webhook handlers are about the reviewed object, not its past
          'old_f': draw(st.sampled_from(['same', 'same', 'absent', 1, 2]))}
    if hint == 'id':
        h = draw(st.sampled_from(handlers))
        sc['hint_id'] = h['id'] + ('/spec.f' if h['field'] else '')    # the id the framework gives to field handlers
        if draw(st.booleans()):
            sc['hint_type'] = h['type']
        if h['operations']:
            sc['operation'] = draw(st.sampled_from(h['operations']))   # what the API server would route there
    else:
        if hint == 'type':
            sc['hint_type'] = draw(st.sampled_from(['validating', 'mutating']))
        for h in handlers:      # un-hinted endpoints: kopf does not filter by operations= (only the DELETE rule)
            if h['operations'] not in (None, ['DELETE']):
                h['operations'] = draw(st.sampled_from([None, ['DELETE']]))
    return sc


# ------------------------------------------------------------------------------------------ reference
def ref_selected(h, sc):
    if sc['hint_type'] is not None and sc['hint_type'] != h['type']:
        return False
    if sc['hint_id'] is not None and sc['hint_id'] != h['id'] + ('/spec.f' if h['field'] else ''):
        return False
    if h['type'] == 'mutating' and sc['operation'] == 'DELETE' and set(h['operations'] or []) != {'DELETE'}:
        return False
    if not (h['subresource'] == '*' or h['subresource'] == sc['subresource']):
        return False
    labels = (sc['object']['metadata'].get('labels') or {})
    for k, crit in (h['labels'] or {}).items():
        if crit == '@present':
            if k not in labels:
                return False
        elif crit == '@absent':
            if k in labels:
                return False
        elif labels.get(k) != crit:
            return False
    if h['when'] == '@cb:false':
        return False
    spec = sc['object'].get('spec') or {}
    if h['field'] == 'present' and 'f' not in spec:
        return False
    if h['field'] == 'is1' and spec.get('f') != 1:
        return False
    if h['field'] == 'absent' and 'f' in spec:
        return False
    return True


FINDING_V = 'C18-V-jsonpatch-library-emits-inapplicable-patch'


def library_diff_is_wrong(src, dst):
    """The listed finding V, identified without kopf: the third-party jsonpatch library, asked for the difference between the reviewed
    object and the requested result, yields operations that its own applier cannot apply to the reviewed object, or that give
    something else (seen with moves into lists that hold booleans and nested lists)."""
    import jsonpatch
    try:
        out = jsonpatch.JsonPatch.from_diff(copy.deepcopy(src), copy.deepcopy(dst)).apply(copy.deepcopy(src))
    except Exception:
        return True
    return json.dumps(out, sort_keys=True) != json.dumps(dst, sort_keys=True)      # (JSON equality: the library compares lists with ==, and [1, 0] == [True, False])


ERR_RANK = {'admission': 0, 'perm': 1, 'temp': 2, 'err': 9}
_SUBCLASSES = {}


def _subclass(base):
    if base not in _SUBCLASSES:
        _SUBCLASSES[base] = type('Operators' + base.__name__, (base,), {})
    return _SUBCLASSES[base]



def model_patch_set(model, zone, path, value):
    d = model
    for key in zone.split('.') + list(path[:-1]):
        nxt = d.get(key)
        if not isinstance(nxt, dict):
            nxt = d[key] = {}
        d = nxt
    d[path[-1]] = copy.deepcopy(value)


FNS = {
    'append': lambda body: body.setdefault('spec', {}).setdefault('fnlist', []).append('m'),
    'setflag': lambda body: body.setdefault('metadata', {}).setdefault('labels', {}).update(flag='on'),
    'dropkey': lambda body: (body.get('spec') or {}).pop('a', None),
}


# ------------------------------------------------------------------------------------------ the case
def build(sc, log):
    import kopf
    from kopf._core.intents.registries import OperatorRegistry
    from kopfsim.opspec import ScriptedError, decode_filter
    reg = OperatorRegistry()
    for h in sc['handlers']:
        def make(h):
            async def fn(patch, warnings, body, **kw):
                log.append(h['id'])
                for w in h['warnings']:
                    warnings.append(w)
                for act in h['patch']:
                    d = patch
                    for key in act['zone'].split('.') + list(act['path'][:-1]):
                        nxt = d.get(key) if isinstance(d, dict) else None
                        if not isinstance(nxt, dict):
                            d[key] = {}
                        d = d[key]
                    d[act['path'][-1]] = copy.deepcopy(act['value'])
                for name in h['fns']:
                    patch.fns.append(FNS[name])
                o = h['outcome']
                if o == 'admission':
                    kwargs = {}
                    if h['code'] is not None:
                        kwargs['code'] = h['code']
                    raise (_subclass(kopf.AdmissionError) if h.get('subclass') else kopf.AdmissionError)(h['message'], **kwargs)
                if o == 'perm':
                    raise (_subclass(kopf.PermanentError) if h.get('subclass') else kopf.PermanentError)(h['message'])
                if o == 'temp':
                    raise (_subclass(kopf.TemporaryError) if h.get('subclass') else kopf.TemporaryError)(h['message'], delay=1)
                if o == 'err':
                    raise ScriptedError(h['message'])
            fn.__name__ = fn.__qualname__ = h['id']
            return fn
        kw = dict(id=h['id'], registry=reg, subresource=h['subresource'])
        if h['operations']:
            kw['operations'] = h['operations']
        if h['labels']:
            kw['labels'] = {k: decode_filter(v) for k, v in h['labels'].items()}
        if h['when']:
            kw['when'] = decode_filter(h['when'])
        if h['field'] == 'present':
            kw['field'] = 'spec.f'
        elif h['field'] == 'is1':
            kw['field'], kw['value'] = 'spec.f', 1
        elif h['field'] == 'absent':
            kw['field'], kw['value'] = 'spec.f', kopf.ABSENT
        deco = kopf.on.validate if h['type'] == 'validating' else kopf.on.mutate
        deco('kopfexamples', **kw)(make(h))
    return reg


def run_case(sc):
    import kopf
    from kopf._cogs.structs import references
    from kopf._core.engines import admission
    from kopf._core.intents import causes
    from kopf._core.reactor import inventory
    from kopfsim.sim import quiet
    quiet()
    res = CaseResult()
    log = []
    reg = build(sc, log)
    resource = references.Resource('kopf.dev', 'v1', 'kopfexamples', namespaced=True, kind='KopfExample', singular='kopfexample')
    insights = references.Insights()
    insights.webhook_resources.add(resource)
    obj = sc['object']
    payload = {'uid': 'review-1', 'kind': {'group': 'kopf.dev', 'version': 'v1', 'kind': 'KopfExample'},
               'resource': {'group': 'kopf.dev', 'version': 'v1', 'resource': 'kopfexamples'},
               'subResource': sc['subresource'], 'userInfo': {'username': 'u', 'uid': 'uu', 'groups': []},
               'name': 'x', 'namespace': 'ns', 'operation': sc['operation'], 'dryRun': sc['dryrun'],
               'object': copy.deepcopy(obj) if sc['operation'] != 'DELETE' else None,
               'oldObject': copy.deepcopy(obj) if sc['operation'] in ('UPDATE', 'DELETE') else None}
    if sc['operation'] == 'UPDATE' and sc.get('old_f', 'same') != 'same':
        if sc['old_f'] == 'absent':
            payload['oldObject']['spec'].pop('f', None)
        else:
            payload['oldObject']['spec']['f'] = sc['old_f']
        res.label('update-with-another-old-value-of-the-field')
    request = {'apiVersion': 'admission.k8s.io/v1', 'kind': 'AdmissionReview', 'request': payload}
    reason = {None: None, 'validating': causes.WebhookType.VALIDATING, 'mutating': causes.WebhookType.MUTATING}[sc['hint_type']]

    async def call():
        return await admission.serve_admission_request(
            request, webhook=sc['hint_id'], reason=reason, settings=kopf.OperatorSettings(),
            memories=inventory.ResourceMemories(), memobase=kopf.Memo(), registry=reg, insights=insights, indices={})
    selected = [h for h in sc['handlers'] if ref_selected(h, sc)]
    try:
        response = asyncio.run(call())
    except Exception as e:
        res.fail('C18/raises:' + type(e).__name__, f'serve_admission_request raised {type(e).__name__}: {e} '
                 f'(selected {[h["id"] for h in selected]}, patch actions {[h["patch"] for h in selected]})')
        _classify(res, sc, selected)
        return res
    rsp = response['response']
    if log != [h['id'] for h in selected]:
        res.fail('C18/selection', f'handlers run: {log}; the reference selects {[h["id"] for h in selected]} for op={sc["operation"]} '
                 f'sub={sc["subresource"]} hint=({sc["hint_id"]},{sc["hint_type"]})')
    failed = [h for h in selected if h['outcome'] != 'ok']
    if rsp.get('allowed') != (not failed):
        res.fail('C18/allowed', f'allowed={rsp.get("allowed")} although failing handlers are {[h["id"] for h in failed]}')
    if rsp.get('uid') != 'review-1':
        res.fail('C18/uid', f'response uid {rsp.get("uid")!r}')
    if failed:
        top = min(ERR_RANK[h['outcome']] for h in failed)
        cands = set()
        for h in failed:
            if ERR_RANK[h['outcome']] == top:
                code = (h['code'] if h['outcome'] == 'admission' and h['code'] is not None else None)
                if h['outcome'] == 'admission' and h['code'] is None:
                    code = 500
                cands.add((h['message'], code or 500))
        status = rsp.get('status') or {}
        got = (status.get('message'), status.get('code'))
        ok = any((got[0] == m or (m == '' and got[0])) and got[1] == c for m, c in cands)
        if not ok:
            res.fail('C18/status', f'reported status {got}; the most specific failing handlers offer {sorted(cands, key=str)} '
                     f'(outcomes {[(h["id"], h["outcome"]) for h in failed]})')
    elif rsp.get('status'):
        res.fail('C18/status-on-allowed', f'status {rsp.get("status")} on an allowed review')
    want_warnings = [w for h in selected for w in h['warnings']]
    if list(rsp.get('warnings') or []) != want_warnings:
        res.fail('C18/warnings', f'warnings {rsp.get("warnings")} expected {want_warnings}')
    # the patch
    model = {}
    for h in selected:
        for act in h['patch']:
            model_patch_set(model, act['zone'], act['path'], act['value'])
    expected = rfc.merge_patch(obj, model)
    for h in selected:
        for name in h['fns']:
            FNS[name](expected)
    ops = []
    if rsp.get('patch'):
        if rsp.get('patchType') != 'JSONPatch':
            res.fail('C18/patch-type', f'patchType={rsp.get("patchType")}')
        ops = json.loads(base64.b64decode(rsp['patch']))
    try:
        got_obj = rfc.json_patch(obj, ops)
    except rfc.PatchError as e:
        msg = f'the returned patch {ops} does not apply to the reviewed object: {e}'
        if library_diff_is_wrong(obj, expected):
            res.known.append({'id': FINDING_V, 'msg': msg})
        else:
            res.fail('C18/patch-does-not-apply', msg)
        got_obj = None
    # (JSON equality, not Python's: true is not 1, and 2.0 is written as 2.0)
    if got_obj is not None and json.dumps(rfc.strip_empty(got_obj), sort_keys=True) != json.dumps(rfc.strip_empty(expected), sort_keys=True):
        msg = (f'returned ops {ops} give {rfc.strip_empty(got_obj)}; the requested changes {model} '
               f'(+fns {[h["fns"] for h in selected]}) give {rfc.strip_empty(expected)}')
        if library_diff_is_wrong(obj, expected):
            res.known.append({'id': FINDING_V, 'msg': msg})
        else:
            res.fail('C18/patch-result', msg)
    _classify(res, sc, selected)
    res.summary = {'selected': [h['id'] for h in selected], 'allowed': rsp.get('allowed'), 'ops': ops[:6]}
    return res


def _classify(res, sc, selected):
    outcomes = {h['outcome'] for h in selected}

    def tricky(act):
        return act['value'] is None or isinstance(act['value'], dict) or len(act['path']) > 1
    res.nontrivial = (len(selected) >= 2 and len(outcomes) >= 2) or any(tricky(a) for h in selected for a in h['patch'])
    res.label(f'selected:{min(len(selected), 3)}', 'op:' + sc['operation'])
    if sc['hint_id']:
        res.label('hinted-by-id')
    if any(h['fns'] for h in selected):
        res.label('with-fns')
    if res.nontrivial:
        res.label('nontrivial')


def run_shard(ctx):
    n = ctx['examples'] or BUDGET[ctx['tier']]
    return explore(scenarios(), run_case, seed=ctx['seed'], max_examples=n, tier=ctx['tier'],
                   known_ids=ctx['known_ids'], shrink_keys=('handlers',))
