"""C07 — Change handlers never run on a view older than the operator's own last write."""
from hypothesis import strategies as st

from props import c02, closedloop as cl
from kopfsim.sim import KEX
from kopfsim.world import Livelock
from runner.pbt import CaseResult, explore

ID = 'C07'
LEVEL = 'exploration'
RULE = ('closed-loop histories with a generated watch-latency schedule (constant or stepwise; below, at and above the consistency '
        'timeout +-1e-6), API response latency, bursts of foreign status/spec/annotation edits placed between a PATCH and its echo, '
        '2-3 change handlers with retries (several patches per cycle) plus on.event, index and timer witnesses. Oracle: no '
        'change-handler invocation at time T on a view older than a version returned to the same incarnation by an earlier PATCH '
        'of that object at time t while T < t + consistency_timeout; conversely on.event/index calls happen at delivery instants '
        'and timers keep their interval. Non-trivial: >=1 foreign event delivered between a patch and its echo; distinct by scenario JSON')
ASSUMPTIONS = c02.ASSUMPTIONS[:3] + [
    'resourceVersions of the model are integers and grow monotonically, so "older view" is a numeric comparison',
    'daemons/timers in these scenarios do not patch (their patches are outside the barrier the property anchors)',
    'equality at the deadline is allowed (a handler may run exactly at t + consistency_timeout)',
]
BUDGET = {'quick': 120, 'thorough': 1000}
CHANGE = ('create', 'update', 'delete', 'resume', 'sub')


@st.composite
def scenarios(draw):
    sc = draw(c02.scenarios())
    timeout = draw(st.sampled_from([5.0, 1.0, 2.0]))
    sc['spec']['settings']['persistence.consistency_timeout'] = timeout
    lat = draw(st.sampled_from([0.3, timeout / 2, timeout - 1e-6, timeout, timeout + 1e-6, 2 * timeout, 0.0]))
    if draw(st.booleans()):
        sc['cluster']['watch_latency'] = lat
    else:
        sc['cluster']['watch_latency'] = draw(st.lists(st.sampled_from([0.0, 0.1, lat, timeout - 1e-6, timeout + 1e-6]), min_size=2, max_size=5))
    instant = draw(st.booleans())
    if instant:
        sc['cluster']['api_latency'] = None
        for h in sc['spec']['handlers']:
            h['duration'] = 0
    else:
        sc['cluster']['rsp_latency'] = draw(st.sampled_from([None, 0.2, 1.0]))
    sc['spec']['handlers'] += [{'kind': 'event', 'id': 'ev', 'script': [], 'duration': 0},
                               {'kind': 'index', 'id': 'idx'},
                               {'kind': 'timer', 'id': 'tm', 'interval': draw(st.sampled_from([1.0, 3.0])), 'script': [], 'duration': 0}]
    # bursts of foreign edits right after something that makes the operator patch
    out = []
    for a in sc['actions']:
        out.append(a)
        if a['a'] in ('create', 'edit_spec') and draw(st.booleans()):
            a['dt'] = draw(st.sampled_from([0.0, 0.05, lat / 2 if lat else 0.0]))
            for _ in range(draw(st.integers(1, 3))):
                out.append({'a': draw(st.sampled_from(['edit_status', 'annotate', 'edit_spec'])), 'obj': a['obj'], 'v': draw(st.integers(0, 9)),
                            'dt': draw(st.sampled_from([0.0, 0.05, 0.3, timeout / 2, timeout + 1.0]))})
    if not instant and draw(st.integers(0, 2)) == 0:
        # a re-listing while a slow handler runs: the list is served before the handler's patch is applied, and its (already stale)
        # items are consumed after the patch has returned - a listed item is no echo of the patch
        chg = [h for h in sc['spec']['handlers'] if h['kind'] in ('create', 'update')]
        if chg:
            draw(st.sampled_from(chg))['duration'] = draw(st.sampled_from([1.5, 3.0]))
        out2 = []
        for a in out:
            out2.append(a)
            if a['a'] in ('create', 'edit_spec') and draw(st.booleans()):
                a['dt'] = draw(st.sampled_from([0.05, 0.3, 1.0]))
                out2.append({'a': 'compact', 'dt': draw(st.sampled_from([0.0, 0.5, 3.0]))})
        out = out2
        sc['relisting_family'] = True
    sc['actions'] = out
    sc['instant'] = instant
    return sc


def check(run, res):
    sc = run.sc
    sim = run.sim
    timeout = sc['spec']['settings']['persistence.consistency_timeout']
    patches = {}     # (inc, uid) -> [(t_response, version)]
    for r in sim.cluster.requests:
        if 'patch' in r['classes'] and r.get('applied') and r.get('result_rv') and r['t_done'] is not None and r['outcome'] == 200:
            patches.setdefault((r['client'], r.get('target_uid')), []).append((r['t_done'], int(r['result_rv']), r['seq_applied']))
    foreign_between = False
    late = early = False
    deliveries = {}   # (inc, uid) -> {rv: t}
    for w in sim.cluster.all_watches:
        if w.rkey == KEX:
            for (t, typ, rv, uid, tick) in w.delivered:
                if rv is not None:
                    deliveries.setdefault((w.session.client_id, uid), {}).setdefault(int(rv), t)
    for c in sim.trace:
        if c.get('k') != 'call' or c['kind'] not in CHANGE:
            continue
        view = c['view']
        if view['metadata'].get('deletionTimestamp') and not view['metadata'].get('finalizers'):
            continue
        v = int(c['rv'])
        for (t, p, seq) in patches.get((c['inc'], c['uid']), []):
            if seq < c['seq'] and p > v and c['t0'] < t + timeout - 1e-9:
                res.fail('C07/stale-view', f'{c["hid"]} by {c["inc"]} on {c["name"]} ran at t={c["t0"]} on view rv={v}, although its own PATCH returned '
                         f'rv={p} at t={t} and only {c["t0"] - t:.6f}s < consistency_timeout={timeout} have passed')
                break
    # classification: foreign events between a patch and its echo; echo earlier/later than the timeout
    for (inc, uid), lst in patches.items():
        dl = deliveries.get((inc, uid), {})
        for (t, p, seq) in lst:
            echo = dl.get(p)
            if echo is not None:
                if echo - t < timeout:
                    early = True
                else:
                    late = True
                if any(t <= dt <= echo and rv != p for rv, dt in dl.items()):
                    foreign_between = True
            else:
                late = True
    # the witnesses are not delayed (instant sub-domain: nothing but the barrier could delay them)
    if sc.get('instant') and not sc['cluster'].get('rsp_latency'):
        for kind in ('event', 'index'):
            for c in sim.trace:
                if c.get('k') == 'call' and c['kind'] == kind and c.get('rv') is not None:
                    t_d = deliveries.get((c['inc'], c['uid']), {}).get(int(c['rv']))
                    if t_d is not None and c.get('type', 'x') is not None and c['t0'] > t_d + 1e-9:
                        res.fail('C07/witness-delayed', f'{kind} handler for {c["name"]} rv={c["rv"]} ran at {c["t0"]}, the event was delivered at {t_d}')
                        break
        res.label('instant-subdomain')
    if sc.get('relisting_family'):
        res.label('relisting-while-a-slow-handler-runs')
    tm = {}
    for c in sim.trace:
        if c.get('k') == 'call' and c['kind'] == 'timer':
            tm.setdefault((c['inc'], c['uid']), []).append(c['t0'])
    interval = next(h['interval'] for h in sc['spec']['handlers'] if h['kind'] == 'timer')
    stop_asked = {n[2]: n[0] for n in sim.notes if n[1] in ('stop', 'kill', 'cancel')}
    for key, ts in tm.items():
        limit = stop_asked.get(key[0], float('inf'))       # (an exiting operator stops its timers: not this property)
        for a, b in zip(ts, ts[1:]):
            if b >= limit:
                break
            if abs((b - a) - interval) > 1e-6:
                res.fail('C07/timer-disturbed', f'timer of {key} ran at {a} and {b} (interval {interval})')
                break
    if foreign_between:
        res.label('foreign-event-between-patch-and-echo')
    if early:
        res.label('echo<timeout')
    if late:
        res.label('echo>=timeout')
    res.nontrivial = foreign_between


def run_case(scenario):
    res = CaseResult()
    run = cl.Run(scenario)
    try:
        try:
            run.run()
            run.quiesce(min(c02.bound_for(scenario), 150.0))
        except Livelock as e:
            res.fail('C07/livelock', str(e))
        check(run, res)
        res.summary = cl.summarize(run, max_calls=20)
    finally:
        run.close()
    return res


def run_shard(ctx):
    n = ctx['examples'] or BUDGET[ctx['tier']]
    return explore(scenarios(), run_case, seed=ctx['seed'], max_examples=n, tier=ctx['tier'], known_ids=ctx['known_ids'])
