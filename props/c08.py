"""C08 — Accumulated patches are delivered completely, atomically and exactly once."""
import json

from hypothesis import strategies as st

from props import c02, closedloop as cl
from kopfsim.sim import KEX
from kopfsim.world import Livelock
from runner.pbt import CaseResult, explore

ID = 'C08'
LEVEL = 'exploration'
RULE = ('closed-loop histories where generated change handlers, timers and daemons put merge fields (spec/status/labels/annotations), '
        'results and non-idempotent "append a unique marker" transformation functions into their patches; resources with and without '
        'a status subresource; API latency so that foreign writes slip between the <=4 requests of a patch sequence (HTTP 422 on the '
        'JSON patch); delete-and-recreate under the same name while a slow handler runs (HTTP 404 / same-named successor). Oracle: a '
        'reference model of every object (fields, results), every marker exactly once, request-log rules (status via /status iff '
        'subresource; JSON patches guarded by a resourceVersion test and touching only transformation targets; nothing after a 404), '
        'and no write on a uid other than the one handled. Non-trivial: a 422 or a foreign write between two requests of one patch '
        'sequence, or a recreate under the same name during a handler; distinct by scenario JSON')
ASSUMPTIONS = c02.ASSUMPTIONS[:3] + [
    'no kills or lost responses here (an unrecorded write is legitimately repeated; C02/C03 cover crashes)',
    'handler patches use paths disjoint from what the environment edits, so the reference model is last-writer-wins per path',
    'transformation functions are appended to patch.fns by the handlers (the same mechanism the framework uses for finalizers)',
]
BUDGET = {'quick': 120, 'thorough': 1000}
FINDING_D = 'C08-D-leftover-of-last-background-patching-dropped'
FINDING_C = 'C08-C-merge-patch-lands-on-same-named-successor'


@st.composite
def scenarios(draw):
    delays = st.sampled_from([0.0, 0.5, 3.0])
    handlers = []
    n = draw(st.integers(1, 3))
    for i in range(n):
        kind = draw(st.sampled_from(['create', 'create', 'update']))
        acts = []
        for j in range(draw(st.integers(0, 3))):
            zone = draw(st.sampled_from(['status', 'status', 'spec', 'labels', 'annotations', 'fn', 'fn']))
            if zone == 'status':
                acts.append({'set': ['status', f's{i}{j}'], 'value': '@attempt'})
            elif zone == 'spec':
                acts.append({'set': ['spec', f'h{i}{j}'], 'value': f'v{i}{j}'})
            elif zone == 'labels':
                acts.append({'set': ['metadata', 'labels', f'l{i}{j}'], 'value': f'v{i}{j}'})
            elif zone == 'annotations':
                acts.append({'set': ['metadata', 'annotations', f'example.com/a{i}{j}'], 'value': f'v{i}{j}'})
            else:
                acts.append({'fn': f'mk{j}', 'zone': 'status', 'field': 'markers', 'mode': 'append'})
        h = {'kind': kind, 'id': f'{kind[0]}{i}', 'script': draw(cl.outcome_scripts(delays, max_len=2, kinds=('ok', 'temp', 'err'))),
             'backoff': 0.5, 'duration': draw(st.sampled_from([0, 0, 0.3, 2.0])), 'patch': acts}
        if draw(st.booleans()):
            h['result'] = draw(st.sampled_from([{'r': 1}, 'done', 7, 0, False, '']))
        handlers.append(h)
    if draw(st.booleans()):
        handlers.append({'kind': 'timer', 'id': 't9', 'interval': draw(st.sampled_from([2.0, 5.0])), 'script': [], 'duration': draw(st.sampled_from([0, 0.5])),
                         'patch': [{'set': ['status', 'st9'], 'value': '@attempt'}] + ([{'fn': 'tmk', 'zone': 'status', 'field': 'markers', 'mode': 'append'}] if draw(st.booleans()) else [])})
        # a second background handler of the same objects with its own patch: what one of them accumulates is its own
        second = draw(st.sampled_from([None, 'daemon', 'daemon', 'timer']))
        if second == 'daemon':
            handlers.append({'kind': 'daemon', 'id': 'd8', 'behaviour': 'exit', 'script': [], 'duration': draw(st.sampled_from([0.7, 2.5, 6.0])),
                             'patch': [{'set': ['status', 'sd8'], 'value': '@attempt'}] + ([{'fn': 'dmk', 'zone': 'status', 'field': 'markers', 'mode': 'append'}] if draw(st.booleans()) else [])})
        elif second == 'timer':
            handlers.append({'kind': 'timer', 'id': 't8', 'interval': 3.0, 'script': [], 'duration': draw(st.sampled_from([0, 0.7])),
                             'patch': [{'set': ['status', 'st8'], 'value': '@attempt'}] + ([{'fn': 'umk', 'zone': 'status', 'field': 'markers', 'mode': 'append'}] if draw(st.booleans()) else [])})
    spec = {'handlers': handlers, 'lifecycle': draw(st.sampled_from(['asap', 'all_at_once', 'one_by_one'])),
            'settings': {'persistence.consistency_timeout': 5.0, 'queueing.idle_timeout': draw(st.sampled_from([5.0, 0.5]))}}
    progress, diffbase = draw(cl.storage_cfgs())
    spec['progress_storage'], spec['diffbase_storage'] = progress, diffbase
    dts = st.sampled_from([0.0, 0.0, 0.1, 0.3, 0.5, 1.0, 2.0, 5.0])
    churn = not any(h['kind'] == 'timer' for h in handlers)     # (timers outliving a force-deleted object are C09's finding B)
    base = cl.env_actions(dts, n_objects=2, with_delete=churn, with_recreate=churn)
    actions = draw(st.lists(base, min_size=2, max_size=12))
    if not any(a['a'] == 'create' for a in actions):
        actions.insert(0, {'a': 'create', 'obj': 0, 'v': 1, 'dt': draw(dts)})
    cluster = {'status_sub': draw(st.booleans()), 'api_latency': draw(st.sampled_from([None, 0.3, 0.3, 1.0])),
               'rsp_latency': draw(st.sampled_from([None, None, 0.3, 1.0])),
               'watch_latency': draw(st.sampled_from([None, None, 0.1]))}
    if draw(st.booleans()):
        # a sibling kind in the same API group whose plural merely begins with ours, with the opposite subresource layout: what
        # the discovery says about `kopfexamplesets/status` says nothing about `kopfexamples`
        cluster['extra_resources'] = [{'gvp': ['kopf.dev', 'v1', 'kopfexamplesets'], 'kind': 'KopfExampleSet', 'status_sub': not cluster['status_sub']}]
    return {'seed': draw(st.integers(0, 9999)), 'spec': spec, 'cluster': cluster, 'actions': actions}


@st.composite
def cmp_scenarios(draw):
    vals = st.one_of(st.integers(0, 3), st.sampled_from(['a', '', None]), st.just({'n': 1}))
    merge = {}
    for zone in draw(st.lists(st.sampled_from(['spec', 'status', 'labels', 'annotations']), max_size=3, unique=True)):
        if zone in ('spec', 'status'):
            merge[zone] = {draw(st.sampled_from(['a', 'b'])): draw(vals)}
        else:
            merge.setdefault('metadata', {})[zone] = {'k': draw(st.sampled_from(['v', '', None]))}
    return {'mode': 'cmp', 'status_sub': draw(st.booleans()), 'merge': merge,
            'fns': draw(st.lists(st.sampled_from(['status', 'spec', 'finalizer']), max_size=3)),
            'fault': draw(st.sampled_from([None, None, 'delete', 'foreign', 'foreign'])), 'at': draw(st.integers(0, 3)),
            'body': {'spec': {'a': 0}, 'status': {'a': 0}} if draw(st.booleans()) else {'spec': {}}}


def run_cmp(sc, res):
    import asyncio
    import logging
    import kopf
    from kopf._cogs.clients import auth, patching
    from kopf._cogs.structs import bodies, credentials, patches, references
    from kopfsim import rfc
    from kopfsim.cluster import FakeSession, Fault
    from kopfsim.sim import ResDef, Sim
    sim = Sim(resources=[ResDef('kopf.dev', 'v1', 'kopfexamples', 'KopfExample', status_sub=sc['status_sub'])], seed=1)
    try:
        cluster, world = sim.cluster, sim.world
        cluster.create(KEX, 'default', 'x', sc['body'])
        uid0 = cluster.objects[(KEX, 'default', 'x')]['metadata']['uid']
        resource = references.Resource('kopf.dev', 'v1', 'kopfexamples', namespaced=True, kind='KopfExample', singular='kopfexample',
                                       subresources=frozenset(['status']) if sc['status_sub'] else frozenset())
        settings = kopf.OperatorSettings()
        markers = [f'm{i}:{z}' for i, z in enumerate(sc['fns'])]

        # docs/patches.rst: transformation functions "may be called more than once ... should check the current state".
        # Where the body half and the status half of one JSON patch go to different endpoints, a conflict on the second
        # half legitimately re-runs all functions, so there they are written idempotently (as documented); everywhere
        # else they are deliberately non-idempotent ("append"), which makes a lost or duplicated application visible.
        endpoints = {('status' if (z == 'status' and sc['status_sub']) else 'main') for z in sc['fns']}
        idempotent = len(endpoints) > 1

        def make_fn(marker, zone):
            def fn(body):
                if zone == 'finalizer':
                    lst = body.setdefault('metadata', {}).setdefault('finalizers', [])
                else:
                    lst = body.setdefault(zone, {}).setdefault('markers', [])
                if not idempotent or marker not in lst:
                    lst.append(marker)
            return fn

        def hook(cl_, req):
            if sc['fault'] == 'delete':
                cl_.delete(KEX, 'default', 'x', force=True)
            else:
                cl_.edit(KEX, 'default', 'x', lambda b: b['metadata'].setdefault('annotations', {}).update({'example.com/foreign': str(req['id'])}))
        cluster.hooks['h'] = hook
        if sc['fault']:
            cluster.faults.append(Fault({'on': 'patch', 'nth': sc['at'], 'do': 'hook', 'hook': 'h'}))
        out = {}

        async def main():
            session = FakeSession(cluster, client_id='P')
            auth.vault_var.set(credentials.Vault({'id': credentials.AiohttpSession(server='http://fake', aiohttp_session=session)}))
            body = bodies.Body(cluster.objects[(KEX, 'default', 'x')])
            patch = patches.Patch(__import__('copy').deepcopy(sc['merge']), body=body)
            for m, z in zip(markers, sc['fns']):
                patch.fns.append(make_fn(m, z))
            rounds = []
            try:
                for _ in range(3):
                    n0 = len(cluster.requests)
                    result, remaining = await patching.patch_obj(settings=settings, resource=resource, namespace='default', name='x',
                                                                 patch=patch, logger=logging.getLogger('x'))
                    rounds.append((result is not None, remaining is not None and bool(remaining), len(cluster.requests) - n0))
                    if not remaining or (KEX, 'default', 'x') not in cluster.objects:
                        break
                    patch = patches.Patch(remaining, body=bodies.Body(cluster.objects[(KEX, 'default', 'x')]))
                out['rounds'] = rounds
            except Exception as e:
                out['exc'] = f'{type(e).__name__}: {e}'
        loop = world.spawn('P')
        loop.create_task(main())
        world.run(50.0)
        if 'exc' in out:
            res.fail('C08/patch_obj-raises', f'{out["exc"]} for {sc}')
            return
        reqs = [r for r in cluster.requests if 'patch' in r['classes']]
        rounds = out.get('rounds', [])
        # ranks strictly increasing within a round; nothing after a 404
        pos = 0
        for (ok, rem, n) in rounds:
            rr = reqs[pos:pos + n]
            pos += n
            ranks = [c02.RANK[('merge' if 'merge' in r['classes'] else 'jsonpatch', 'status' in r['classes'])] for r in rr]
            if ranks != sorted(set(ranks)):
                res.fail('C08/request-order', f'requests of one patch sequence: {ranks}')
            for i, r in enumerate(rr):
                if r['outcome'] == 404 and i != len(rr) - 1:
                    res.fail('C08/request-after-404', f'{len(rr) - i - 1} more request(s) after the 404: {[sorted(q["classes"]) for q in rr[i + 1:]]}')
                if 'merge' in r['classes']:
                    if sc['status_sub'] and 'status' not in r['classes'] and 'status' in (r['payload'] or {}):
                        res.fail('C08/status-through-main-endpoint', str(r['payload']))
                    if not sc['status_sub'] and 'status' in r['classes']:
                        res.fail('C08/status-endpoint-without-subresource', str(r['payload']))
                if 'jsonpatch' in r['classes']:
                    ops = r['payload'] or []
                    if not ops or ops[0].get('op') != 'test' or ops[0].get('path') != '/metadata/resourceVersion':
                        res.fail('C08/jsonpatch-without-version-test', str(ops[:2]))
            if rr and rr[-1]['outcome'] == 404 and (ok or rem):
                res.fail('C08/404-not-silent', f'after a 404 patch_obj returned body={ok} remaining={rem}')
        final = cluster.objects.get((KEX, 'default', 'x'))
        gone = final is None
        if not gone:
            want = rfc.merge_patch(sc['body'], sc['merge'])
            for zone in ('spec', 'status'):
                for k, v in (sc['merge'].get(zone) or {}).items():
                    if (final.get(zone) or {}).get(k) != (want.get(zone) or {}).get(k):
                        res.fail('C08/field-not-delivered', f'{zone}.{k} is {(final.get(zone) or {}).get(k)!r}, expected {(want.get(zone) or {}).get(k)!r} ({sc})')
            for zone in ('labels', 'annotations'):
                v = ((sc['merge'].get('metadata') or {}).get(zone) or {}).get('k', 'unset')
                if v != 'unset' and (final['metadata'].get(zone) or {}).get('k') != v:
                    res.fail('C08/field-not-delivered', f'metadata.{zone}.k is {(final["metadata"].get(zone) or {}).get("k")!r}, expected {v!r}')
            for m, z in zip(markers, sc['fns']):
                have = (final['metadata'].get('finalizers') or []) if z == 'finalizer' else ((final.get(z) or {}).get('markers') or [])
                if have.count(m) != 1:
                    res.fail('C08/marker-not-exactly-once', f'marker {m} occurs {have.count(m)} times after {rounds} ({sc})')
        saw_422 = any(r['outcome'] == 422 for r in reqs)
        if saw_422:
            res.label('cmp-422')
        if any(r['outcome'] == 404 for r in reqs):
            res.label('cmp-404')
        res.label('cmp')
        res.nontrivial = saw_422 or any(r['outcome'] == 404 for r in reqs)
        res.summary = {'rounds': rounds, 'requests': [(sorted(r['classes']), r['outcome']) for r in reqs]}
    finally:
        sim.close()


def resolve(body, path):
    cur = body
    for p in path:
        if not isinstance(cur, dict) or p not in cur:
            return None
        cur = cur[p]
    return cur


def check(run, res, t_end):
    sc = run.sc
    sim = run.sim
    status_sub = sc['cluster']['status_sub']
    hs = {h['id']: h for h in sc['spec']['handlers']}
    calls = [c for c in sim.trace if c.get('k') == 'call' and c['hid'] in hs]
    versions = {}
    for h in sim.cluster.history:
        if h['rkey'] == KEX:
            versions.setdefault(h['uid'], []).append(h)
    live = {b['metadata']['uid']: b for k, b in sim.cluster.objects.items() if k[0] == KEX}
    reqs = [r for r in sim.cluster.requests if r['client'] != 'env' and r['plural'] == 'kopfexamples' and r['name']]
    saw_422 = saw_foreign_between = saw_recreate = False

    # ---- request-log rules
    for r in reqs:
        if 'merge' in r['classes'] and isinstance(r['payload'], dict):
            if status_sub and 'status' not in r['classes'] and 'status' in r['payload']:
                res.fail('C08/status-through-main-endpoint', f'{r["client"]} sent status fields through the main endpoint of a resource with a status subresource: {str(r["payload"])[:200]}')
            if 'status' in r['classes'] and (not status_sub):
                res.fail('C08/status-endpoint-without-subresource', f'{r["client"]} used /status of a resource without the subresource')
            if 'status' in r['classes'] and set(r['payload']) - {'status'}:
                res.fail('C08/non-status-through-status-endpoint', f'{str(r["payload"])[:200]}')
        if 'jsonpatch' in r['classes']:
            ops = r['payload'] or []
            if not ops or ops[0].get('op') != 'test' or ops[0].get('path') != '/metadata/resourceVersion':
                res.fail('C08/jsonpatch-without-version-test', f'{r["client"]} JSON-patched {r["name"]} without a leading resourceVersion test: {ops[:3]}')
            for o in ops[1:]:
                if not (o.get('path', '').startswith('/metadata/finalizers') or o.get('path', '').startswith('/status/markers')
                        or o.get('path') == '/status' and status_sub is not None):
                    res.fail('C08/jsonpatch-touches-other-fields', f'op {o} is not a transformation target')
            if r['outcome'] == 422:
                saw_422 = True

    # ---- processing segments per (operator, object name): 404 ends the sequence; writes land on the handled uid
    by_name = {}
    for c in calls:
        by_name.setdefault((c['inc'], c['name']), []).append((c['seq'], 'call', c))
    for r in reqs:
        if 'patch' in r['classes']:
            by_name.setdefault((r['client'], r['name']), []).append((r['seq'], 'req', r))
    for key, evs in by_name.items():
        evs.sort(key=lambda e: e[0])
        seg_calls, seg_reqs = [], []
        segs = []
        for _, what, item in evs:
            if what == 'call':
                if seg_reqs:
                    segs.append((seg_calls, seg_reqs))
                    seg_calls, seg_reqs = [], []
                seg_calls.append(item)
            else:
                seg_reqs.append(item)
        segs.append((seg_calls, seg_reqs))
        for seg_calls, seg_reqs in segs:
            uids = {c['uid'] for c in seg_calls if hs[c['hid']]['kind'] not in ('timer', 'daemon')}
            seen_404 = None
            prev_req = None
            for r in seg_reqs:
                if r['outcome'] == 404:
                    seen_404 = r
                if uids and r.get('applied') and r.get('target_uid') not in uids:
                    saw = f'{key}: the {sorted(r["classes"])} request at t={r["t"]} computed for {sorted(uids)} was applied to {r.get("target_uid")}: {str(r["payload"])[:160]}'
                    after_merge = any(q.get('applied') and 'merge' in q['classes'] and q.get('target_uid') == r.get('target_uid') and q['seq'] < r['seq']
                                      for q in seg_reqs)
                    if 'merge' in r['classes'] or after_merge:      # (the JSON patch tests the version returned by that merge-patch)
                        res.known.append({'id': FINDING_C, 'msg': saw})
                    else:
                        res.fail('C08/jsonpatch-on-wrong-object', saw)
                if prev_req is not None and prev_req.get('seq_applied') and r.get('target_uid'):
                    if any(v['writer'] == 'env' and prev_req['seq_applied'] < v['seq'] < r['seq_applied'] for v in versions.get(r['target_uid'], []) if r.get('seq_applied')):
                        saw_foreign_between = True
                prev_req = r
    for a in sc['actions']:
        if a['a'] == 'recreate':
            saw_recreate = True

    # ---- the reference model: fields, results, markers
    model, markers = {}, {}
    polluted = set()      # uids that received a write computed for another object (known finding C): not judged further
    for k in res.known:
        pass
    for c in sorted([c for c in calls if c.get('seq1') is not None], key=lambda c: c['seq1']):
        if c['outcome'] == 'cancelled':
            continue
        for path, val in c.get('patched') or []:
            model.setdefault(c['uid'], {})[tuple(path)] = val
        if c['outcome'] == 'ok' and c.get('result') is not None and hs[c['hid']]['kind'] not in ('timer', 'daemon'):
            if isinstance(c['result'], dict):
                for k2, v2 in c['result'].items():
                    model.setdefault(c['uid'], {})[('status', c['hid'], k2)] = v2
            else:
                model.setdefault(c['uid'], {})[('status', c['hid'])] = c['result']
        for m in c.get('fns') or []:
            markers.setdefault(c['uid'], []).append((m, c))
    wrong_target = {r.get('target_uid') for r in reqs if r.get('applied')} - set()
    for uid, body in live.items():
        if body['metadata'].get('deletionTimestamp'):
            continue
        # objects hit by finding C carry data of their predecessor: excluded from the exact comparison
        hit_by_c = any(k['id'] == FINDING_C and uid in k['msg'] for k in res.known)
        for path, val in (model.get(uid) or {}).items():
            got = resolve(body, path)
            # the last patch may still be on its way if the call ended within the final moments
            settled = all(c['t1'] < t_end - 15.0 for c in calls if c['uid'] == uid and c.get('t1') is not None and any(tuple(p) == path for p, _ in c.get('patched') or []))
            if got != val and not hit_by_c and settled:
                # finding C seen from the successor's side: the value there is what an invocation for a same-named *other* uid patched
                alien = [c for c in calls if c['name'] == body['metadata']['name'] and c['uid'] != uid
                         and any(tuple(p) == path and v == got for p, v in c.get('patched') or [])]
                if alien:
                    res.known.append({'id': FINDING_C, 'msg': f'{body["metadata"]["name"]} ({uid}): {".".join(path)} is {got!r}, which {alien[0]["hid"]} patched for its '
                                      f'same-named predecessor {alien[0]["uid"]} (view rv={alien[0]["rv"]}, t={alien[0]["t0"]})'})
                    continue
                res.fail('C08/field-not-delivered', f'{body["metadata"]["name"]} ({uid}): {".".join(path)} is {got!r}, the handlers\' patches say {val!r}')
        have = list((body.get('status') or {}).get('markers') or [])
        for m, c in markers.get(uid, []):
            n = have.count(m)
            if n == 0 and c['t1'] is not None and c['t1'] < t_end - 15.0 and hs[c['hid']]['kind'] in ('daemon', 'timer'):
                # Known finding D: a daemon/timer carries what is left of a patch (a transformation refused with 422 on a stale
                # version) into its *next* invocation; after the last invocation there is none, and the leftover is dropped.
                refused = any('jsonpatch' in r['classes'] and r['outcome'] == 422 and m in json.dumps(r['payload']) for r in reqs)
                later = any(x['hid'] == c['hid'] and x['uid'] == c['uid'] and x['inc'] == c['inc'] and x['seq'] > c['seq'] for x in calls)
                delivered = any('jsonpatch' in r['classes'] and r['outcome'] == 200 and m in json.dumps(r['payload']) for r in reqs)
                if refused and not later and not delivered:
                    res.known.append({'id': FINDING_D, 'msg': f'{body["metadata"]["name"]} ({uid}): the transformation {m} of the last invocation of '
                                      f'{hs[c["hid"]]["kind"]} {c["hid"]} (t={c["t0"]}..{c["t1"]}) was refused with 422 (stale version) and never sent again'})
                    continue
            if n == 0 and c['t1'] is not None and c['t1'] < t_end - 15.0:
                # still being carried forward: under lasting contention (background handlers patching more often than a request round-trips)
                # every resourceVersion test goes stale; the transformation is neither lost nor duplicated, it is re-sent - recently
                carrying = [r for r in reqs if 'jsonpatch' in r['classes'] and m in json.dumps(r['payload'])]
                def tested(r):
                    try:
                        return int(r['payload'][0]['value'])
                    except Exception:
                        return -1
                # (re-sent against ever fresher versions: a request that keeps testing one stale version is not starving, it is wrong)
                fresher = len(carrying) >= 4 and tested(carrying[-1]) > tested(carrying[-4]) > 0
                if fresher and carrying[-1]['outcome'] in (422, None) and carrying[-1]['t'] > t_end - 15.0 and not any(r['outcome'] == 200 for r in carrying):
                    res.label('transformation-starved-by-contention')
                    continue
            if n != 1 and c['t1'] is not None and c['t1'] < t_end - 15.0:
                res.fail('C08/marker-not-exactly-once', f'{body["metadata"]["name"]} ({uid}): transformation marker {m} of {c["hid"]} (t={c["t0"]}) occurs {n} times in {have}')
        if not hit_by_c:
            mine = {m for m, _ in markers.get(uid, [])}
            for m in have:
                if m not in mine:
                    other_uid = m.split(':')[2] if m.count(':') >= 4 else None
                    same_name = other_uid in versions and versions[other_uid][0]['name'] == body['metadata']['name']
                    if same_name:
                        res.known.append({'id': FINDING_C, 'msg': f'{body["metadata"]["name"]} ({uid}) carries marker {m} computed for its same-named predecessor {other_uid}'})
                        continue
                    res.fail('C08/foreign-marker', f'{body["metadata"]["name"]} ({uid}) carries marker {m} that no handler invocation for this uid produced')
    for name, op in sim.ops.items():
        if op.exit is not None and op.exit[0] == 'exc':
            res.fail('C08/operator-failed', f'{name} exited with {op.exit}')
    if saw_422:
        res.label('422-on-jsonpatch')
    if saw_foreign_between:
        res.label('foreign-write-between-requests')
    if saw_recreate:
        res.label('recreate-under-same-name')
    if any(r['outcome'] == 404 for r in reqs):
        res.label('404')
    if sum(1 for h in hs.values() if h['kind'] in ('timer', 'daemon')) >= 2:
        res.label('two-background-handlers-patching')
    res.label('status_sub' if status_sub else 'no-status_sub')
    res.nontrivial = saw_422 or saw_foreign_between or (saw_recreate and any(c['t1'] is not None and c['t1'] - c['t0'] > 0 for c in calls))
    if res.nontrivial:
        res.label('nontrivial')


def run_case(scenario):
    res = CaseResult()
    if scenario.get('mode') == 'cmp':
        run_cmp(scenario, res)
        return res
    run = cl.Run(scenario)
    try:
        try:
            run.run()
            # stop the timers' object churn: let everything settle, then freeze the picture
            run.quiesce(60.0)
        except Livelock as e:
            res.fail('C08/livelock', str(e))
        check(run, res, run.sim.world.now)
        res.summary = cl.summarize(run, max_calls=20)
    finally:
        run.close()
    return res


def run_shard(ctx):
    n = ctx['examples'] or BUDGET[ctx['tier']]
    return explore(st.one_of(scenarios(), scenarios(), cmp_scenarios()), run_case, seed=ctx['seed'], max_examples=n, tier=ctx['tier'], known_ids=ctx['known_ids'])
