"""C09 — Daemon/timer lifecycle: one instance, started on match, stopped in stages."""
from hypothesis import strategies as st

from props import closedloop as cl
from kopfsim import vclock
from kopfsim.sim import CPEER, KEX, ResDef
from kopfsim.world import Livelock
from runner.pbt import CaseResult, explore

ID = 'C09'
LEVEL = 'exploration'
RULE = ('closed-loop histories over 1-3 daemons/timers per object with the stop behaviours (obeys the flag / needs cancellation / '
        'ignores both / exits on its own), cancellation backoff/timeout, timer shapes, label toggles, graceful deletion, forced '
        'deletion (no deletion mark ever seen: before the finalizer lands or after its forced removal), pauses by a generated '
        'higher-priority peer record, operator exit, two objects. Oracle D1-D6 from enter/exit/stop-flag records and delivery '
        'instants. Non-trivial: a toggle or deletion while an instance is in a stopping stage, a forced deletion, or a pause; '
        'distinct by scenario JSON')
ASSUMPTIONS = [
    'zero API/watch latency, so that "at that event\'s instant" is an exact equality (tolerance 1e-6)',
    'daemons that do not obey the flag are generated with a cancellation_timeout (otherwise they legitimately run forever)',
    'the API-server model and virtual time of kopfsim',
]
BUDGET = {'quick': 130, 'thorough': 1500}
EPS = 1e-6
FINDING_B = 'C09-B-instances-survive-disappearance-without-deletion-mark'
FINDING_P = 'C09-P-rematch-during-stopping-freezes-termination'
REASONS = {'deleted': 'RESOURCE_DELETED', 'mismatch': 'FILTERS_MISMATCH', 'pause': 'OPERATOR_PAUSING', 'exit': 'OPERATOR_EXITING'}


@st.composite
def scenarios(draw):
    flt = st.sampled_from([None, None, {'on': 'yes'}])
    handlers = []
    for i in range(draw(st.integers(1, 3))):
        if draw(st.integers(0, 3)) == 0:
            idle = draw(st.sampled_from([None, None, 3.0, 3.0]))
            handlers.append({'kind': 'timer', 'id': f't{i}', 'labels': draw(flt), 'idle': idle,
                             'interval': draw(st.sampled_from([2.0, 5.0, None])) if idle else draw(st.sampled_from([2.0, 5.0])),
                             'duration': draw(st.sampled_from([0, 0, 1.0])), 'script': []})
        else:
            beh = draw(st.sampled_from(['obey', 'obey', 'cancel', 'ignore', 'exit']))
            handlers.append({'kind': 'daemon', 'id': f'm{i}', 'behaviour': beh, 'labels': draw(flt),
                             'initial_delay': draw(st.sampled_from([None, None, 1.5])),
                             'cancellation_backoff': draw(st.sampled_from([None, 0.5, 3.0])),
                             'cancellation_timeout': draw(st.sampled_from([1.0, 4.0])) if beh in ('ignore', 'cancel') else draw(st.sampled_from([None, 1.0])),
                             'exit_delay': draw(st.sampled_from([0, 0, 2.0])), 'duration': draw(st.sampled_from([0, 1.0])), 'script': []})
    handlers.append({'kind': 'event', 'id': 'ev', 'script': [], 'duration': 0})
    if draw(st.booleans()):
        handlers.append({'kind': 'create', 'id': 'cr', 'script': [], 'duration': 0})     # (a diff-base exists: not every event is a change)
    peering = draw(st.booleans())
    if draw(st.integers(0, 3)) == 0:
        # a synchronous daemon (a thread, which no cancellation can reach): it polls its stop flag and lingers for a while after it
        # saw it. Until the thread has ended the instance is alive, however often its task is cancelled meanwhile.
        handlers[0] = {'kind': 'daemon', 'id': 's0', 'sync': True, 'poll': draw(st.sampled_from([0.5, 1.0])),
                       'linger': draw(st.sampled_from([0.0, 2.5, 6.0, 12.0])), 'labels': draw(flt),
                       'cancellation_backoff': draw(st.sampled_from([None, 0.5])), 'cancellation_timeout': draw(st.sampled_from([None, 1.0, 4.0]))}
        peering = peering or draw(st.booleans())
    dts = st.sampled_from([0.0, 0.1, 0.5, 1.0, 3.0, 3.0 - 1e-6, 4.0, 10.0])
    base = cl.env_actions(dts, n_objects=2, with_delete=True, with_recreate=True, with_labels=True)
    extra = [st.builds(lambda o, dt: {'a': 'strip_and_delete', 'obj': o, 'dt': dt}, st.integers(0, 1), dts)]
    if peering:
        extra += [st.builds(lambda dt, life: {'a': 'peer_on', 'lifetime': life, 'dt': dt}, dts, st.sampled_from([5, 60])),
                  st.builds(lambda dt: {'a': 'peer_off', 'dt': dt}, dts)]
    actions = draw(st.lists(st.one_of(base, base, base, *extra), min_size=2, max_size=14))
    if not any(a['a'] == 'create' for a in actions):
        actions.insert(0, {'a': 'create', 'obj': 0, 'v': 1, 'dt': draw(dts)})
    if draw(st.booleans()):
        actions.insert(1, {'a': 'label', 'obj': draw(st.integers(0, 1)), 'v': 'yes', 'dt': draw(dts)})
    if draw(st.integers(0, 2)) == 0:
        # aim at the match/mismatch transitions: something filtered by the label, and the label toggling under it
        hh = draw(st.sampled_from([h for h in handlers if h['kind'] in ('daemon', 'timer')]))
        hh['labels'] = {'on': 'yes'}
        tog = [{'a': 'label', 'obj': 0, 'v': 'yes', 'dt': draw(dts)}, {'a': 'label', 'obj': 0, 'v': draw(st.sampled_from(['no', None])), 'dt': draw(dts)},
               {'a': 'label', 'obj': 0, 'v': 'yes', 'dt': draw(dts)}]
        pos = draw(st.integers(1, len(actions)))
        actions = actions[:pos] + tog + actions[pos:]
        if not any(a['a'] == 'create' and a['obj'] == 0 for a in actions[:pos]):
            actions.insert(0, {'a': 'create', 'obj': 0, 'v': 1, 'dt': draw(dts)})
    if handlers[0].get('sync') and draw(st.booleans()):
        # aim at the pause: the daemon killer asks (and cancels) again every second while the operator is paused, the thread outlives
        # the pause, and the object is seen again (re-listed) when the operator resumes
        peering = True
        handlers[0].update(linger=draw(st.sampled_from([6.0, 12.0])), cancellation_timeout=draw(st.sampled_from([1.0, 4.0])), labels=None)
        actions = [{'a': 'create', 'obj': 0, 'v': 1, 'dt': draw(st.sampled_from([0.5, 2.0]))},
                   {'a': 'peer_on', 'lifetime': 60, 'dt': draw(st.sampled_from([1.5, 2.5, 3.5, 5.0]))},
                   {'a': 'peer_off', 'dt': draw(st.sampled_from([0.5, 3.0, 10.0]))}] + actions[:draw(st.integers(0, 6))]
    elif draw(st.integers(0, 5)) == 0:
        # aim at a pause that begins while an instance is in its stopping stages for another reason (its object is being deleted
        # or stopped matching): the streams are closed, no event will drive the remaining stages - the pausing operator must
        peering = True
        how = draw(st.sampled_from(['delete', 'mismatch']))
        handlers[0] = {'kind': 'daemon', 'id': 'm0', 'behaviour': 'cancel', 'labels': {'on': 'yes'} if how == 'mismatch' else None, 'initial_delay': None,
                       'cancellation_backoff': draw(st.sampled_from([3.0, 5.0])), 'cancellation_timeout': draw(st.sampled_from([1.0, 4.0])),
                       'exit_delay': 0, 'duration': 0, 'script': []}
        first = [{'a': 'create', 'obj': 0, 'v': 1, 'dt': 0.0}, {'a': 'label', 'obj': 0, 'v': 'yes', 'dt': draw(st.sampled_from([1.0, 2.0]))}]
        first.append({'a': 'delete', 'obj': 0, 'dt': 0.0} if how == 'delete' else {'a': 'label', 'obj': 0, 'v': 'no', 'dt': 0.0})
        first[-1]['dt'] = draw(st.sampled_from([0.1, 0.5, 1.0, 2.0]))
        actions = first + [{'a': 'peer_on', 'lifetime': 60, 'dt': draw(st.sampled_from([15.0, 25.0]))},
                           {'a': 'peer_off', 'dt': draw(st.sampled_from([0.5, 3.0]))}]
        if draw(st.integers(0, 2)) == 0:
            actions = first + [{'a': 'advance', 'dt': 15.0}]      # (the same without the pause: the plain staged termination)
    end = draw(st.sampled_from(['run', 'run', 'stop']))
    if draw(st.integers(0, 9)) == 0:
        # several daemons of one object that leave at once when the operator stops or pauses (they drop out of the object's
        # set of running daemons while that set is being gone through)
        handlers = [{'kind': 'daemon', 'id': f'm{i}', 'behaviour': 'obey', 'labels': None, 'initial_delay': None, 'cancellation_backoff': draw(st.sampled_from([None, 0.5])),
                     'cancellation_timeout': draw(st.sampled_from([None, 1.0])), 'exit_delay': draw(st.sampled_from([0, 0, 0.3])), 'duration': 0, 'script': []}
                    for i in range(draw(st.integers(2, 3)))] + [{'kind': 'event', 'id': 'ev', 'script': [], 'duration': 0}]
        actions = [{'a': 'create', 'obj': 0, 'v': 1, 'dt': draw(st.sampled_from([0.5, 2.0]))}, {'a': 'create', 'obj': 1, 'v': 1, 'dt': draw(st.sampled_from([0.0, 1.0]))}]
        if draw(st.booleans()):
            peering = True
            actions += [{'a': 'peer_on', 'lifetime': 60, 'dt': draw(st.sampled_from([2.0, 5.0]))}, {'a': 'peer_off', 'dt': 3.0}]
        end = 'stop'
    spec = {'handlers': handlers, 'settings': {'background.cancellation_polling': 2.0, 'persistence.consistency_timeout': 1.0,
                                               'peering.priority': 10, 'queueing.idle_timeout': draw(st.sampled_from([5.0, 0.5]))}}
    return {'seed': draw(st.integers(0, 9999)), 'spec': spec, 'cluster': {}, 'actions': actions, 'peering': peering, 'end': end}


def matches(h, body):
    labels = body['metadata'].get('labels') or {}
    return all(labels.get(k) == v for k, v in (h.get('labels') or {}).items())


def run_case(sc):
    res = CaseResult()
    scenario = dict(sc)
    if sc['peering']:
        scenario['cluster'] = {'extra_resources': [{'gvp': list(CPEER), 'kind': 'ClusterKopfPeering', 'namespaced': False}]}
        scenario['op_kwargs'] = {'standalone': False}
    run = cl.Run(scenario)
    sim = run.sim
    try:
        if sc['peering']:
            sim.cluster.create(CPEER, None, 'default', {})

        def custom(act):
            a = act['a']
            if a == 'peer_on':
                rec = {'priority': 100, 'lifetime': act['lifetime'], 'lastseen': vclock.iso(sim.world.now)}
                sim.cluster.edit(CPEER, None, 'default', lambda b: b.setdefault('status', {}).update(rival=rec))
            elif a == 'peer_off':
                sim.cluster.edit(CPEER, None, 'default', lambda b: (b.get('status') or {}).pop('rival', None))
            elif a == 'strip_and_delete':
                k = run.key(act['obj'])
                if k in sim.cluster.objects:
                    sim.cluster.edit(*k, lambda b: b['metadata'].pop('finalizers', None))
                    if k in sim.cluster.objects:
                        sim.cluster.delete(*k, force=True)
            else:
                return False
            run.performed.append((sim.world.now, act, True))
            run.advance(act.get('dt') or 0.0)
            return True
        livelock = None
        try:
            for act in sc.get('pre', []):
                run.do(act)
            run.start()
            run.advance(1.0)
            for act in sc['actions']:
                if not custom(act):
                    run.do(act)
            run.advance(30.0)
            t_stop = None
            if sc['end'] == 'stop':
                t_stop = sim.world.now
                sim.stop(run.current)
                run.advance(40.0)
        except Livelock as e:
            livelock = str(e)
        check(run, res, sc, livelock, t_stop if not livelock else None)
        res.summary = cl.summarize(run, max_calls=25)
    finally:
        run.close()
    return res



def rematch_possible(h, evs, vers, t_req):
    """(finding P's precondition: the object matched again after the instance was asked to stop for a mismatch)"""
    return any(t >= t_req - EPS and typ != 'DELETED' and vers.get(rv) is not None and matches(h, vers[rv]['body'])
               and not vers[rv]['body']['metadata'].get('deletionTimestamp') for (t, typ, rv, tick) in evs)


def check(run, res, sc, livelock, t_stop):
    sim = run.sim
    hs = {h['id']: h for h in sc['spec']['handlers'] if h['kind'] in ('daemon', 'timer')}
    inc = run.current
    calls = [c for c in sim.trace if c.get('k') == 'call' and c['hid'] in hs]
    if livelock:
        res.fail('C09/D6-livelock', f'the operator spins without letting time pass: {livelock}')
        return
    if sim.world.stalls:
        res.fail('C09/D6-event-loop-blocked', f'a callback of the operator blocked its event loop for more than the wall-clock limit (a synchronous spin) at virtual t={sim.world.stalls[0][1]}')
    op = sim.ops.get(inc)
    if op is not None and op.exit is not None and op.exit[0] == 'exc':
        res.fail('C09/D6-operator-died', f'{op.exit}')
    # ---- deliveries of object events to the operator
    vers_by_uid = {}
    for v in sim.cluster.history:
        if v['rkey'] == KEX:
            vers_by_uid.setdefault(v['uid'], []).append(v)
    delivered = {}     # uid -> [(t, type, rv)]
    for r in sim.cluster.requests:
        if r['client'] == inc and r.get('listed') and r['plural'] == 'kopfexamples':
            for uid, rv in r['listed']:
                delivered.setdefault(uid, []).append((r['t_done'], None, int(rv), r['seq_applied']))
    for w in sim.cluster.all_watches:
        if w.rkey == KEX and w.session.client_id == inc:
            for (t, typ, rv, uid, tick) in w.delivered:
                if typ in ('ADDED', 'MODIFIED', 'DELETED'):
                    delivered.setdefault(uid, []).append((t, typ, int(rv), tick))
    for uid in delivered:
        delivered[uid].sort(key=lambda x: x[3])
    # pause intervals as the operator could observe them: deliveries of the peering object
    pauses = []
    if sc['peering']:
        cur = None
        for w in sim.cluster.all_watches:
            if w.rkey == CPEER and w.session.client_id == inc:
                for (t, typ, rv, uid, tick) in w.delivered:
                    body = next((v['body'] for v in sim.cluster.history if v['rkey'] == CPEER and str(v['rv']) == str(rv)), None)
                    rival = ((body or {}).get('status') or {}).get('rival')
                    alive = False
                    if rival:
                        alive = vclock.from_iso(rival['lastseen']) + rival['lifetime'] > t
                    if alive and cur is None:
                        cur = t
                    if not alive and cur is not None:
                        pauses.append((cur, t))
                        cur = None
        if cur is not None:
            pauses.append((cur, None))
    nontrivial = bool(pauses)
    forced = False

    for uid, evs in delivered.items():
        vers = {v['rv']: v for v in vers_by_uid.get(uid, [])}
        # trigger instants for this object
        triggers = []     # (t, kind, hid or None)
        saw_mark = False
        prev_match = {}
        for (t, typ, rv, tick) in evs:
            v = vers.get(rv)
            body = v['body'] if v else None
            if typ == 'DELETED':
                triggers.append((t, 'deleted' if saw_mark else 'vanished', None, tick))
                if not saw_mark:
                    forced = True
                continue
            if body is None:
                continue
            if body['metadata'].get('deletionTimestamp'):
                if not saw_mark:
                    triggers.append((t, 'deleted', None, tick))
                saw_mark = True
                continue
            for hid, h in hs.items():
                m = matches(h, body)
                if prev_match.get(hid) and not m:
                    triggers.append((t, 'mismatch', hid, tick))
                prev_match[hid] = m
        for (p0, p1) in pauses:
            triggers.append((p0, 'pause', None, None))
        if t_stop is not None:
            triggers.append((t_stop, 'exit', None, None))
        triggers4 = triggers
        triggers = [(t, k, who) for (t, k, who, tick) in triggers4]
        for hid, h in hs.items():
            inst = [c for c in calls if c['uid'] == uid and c['hid'] == hid and c['inc'] == inc]
            if h['kind'] == 'daemon':
                # D1/D5: never two at once, no start before the previous one ended
                for a, b in zip(inst, inst[1:]):
                    if a['t1'] is None or b['t0'] + EPS < a['t1']:
                        res.fail('C09/D1-two-instances', f'daemon {hid} of {uid}: started at {b["t0"]} while the instance started at {a["t0"]} had not ended ({a["t1"]})')
                        break
                # D4: exited on its own => never again in this incarnation
                for i, a in enumerate(inst):
                    if a['t1'] is not None and not a.get('stopped_set') and a['outcome'] in ('ok', 'perm') and inst[i + 1:]:
                        res.fail('C09/D4-restarted-after-own-exit', f'daemon {hid} of {uid} exited on its own at {a["t1"]} and was started again at {inst[i + 1]["t0"]}')
                        break
                # D3: the stop flag comes at the trigger's instant, with the right reason, and only then
                for a in inst:
                    if a.get('behaviour') != 'obey':
                        continue
                    relevant = [(t, k) for (t, k, who, tick) in triggers4 if (who in (None, hid)) and a['t0'] - EPS <= t and (a['t1'] is None or t <= a['t1'] + EPS)
                                and (tick is None or tick > a['seq'])]
                    if a.get('flag_seen') is not None:
                        hit = [(t, k) for (t, k) in relevant if abs(t - a['flag_seen']) <= EPS]
                        if not hit:
                            res.fail('C09/D3-unexplained-stop', f'daemon {hid} of {uid} saw its stop flag at {a["flag_seen"]} ({a.get("stopped_reason")}); triggers: {relevant}')
                        else:
                            kinds = {k for _, k in hit}
                            names = {REASONS[k] for k in kinds if k in REASONS}
                            if names and not any(n in (a.get('stopped_reason') or '') for n in names) and 'vanished' not in kinds:
                                res.fail('C09/D3-wrong-reason', f'daemon {hid} of {uid}: stopped at {a["flag_seen"]} with reason {a.get("stopped_reason")}, expected one of {sorted(names)}')
                    first = min([t for t, k in relevant if t > a['t0'] + EPS or k != 'pause'] or [None], default=None) if relevant else None
                    if relevant and a.get('flag_seen') is None:
                        t0, k0 = sorted(relevant)[0]
                        msg = f'daemon {hid} of {uid} (running since {a["t0"]}) was not asked to stop at {t0} ({k0}); it ended at {a["t1"]}'
                        vanished_before = any(k == 'vanished' and t <= t0 + EPS for (t, k, who) in triggers)
                        if k0 == 'vanished' or vanished_before:      # (orphaned by the forced deletion: nobody can reach it anymore)
                            res.known.append({'id': FINDING_B, 'msg': msg})
                        elif sim.world.now - t0 > 5.0:
                            res.fail('C09/D3-not-stopped', msg)
                # staged termination: a daemon that ignores the flag must be cancelled once the backoff is over
                for a in inst:
                    if a.get('behaviour') == 'cancel' and a.get('cancel_seen') is None and h.get('cancellation_timeout') is not None:
                        trig = [(t, k) for (t, k, who, tick) in triggers4 if (who in (None, hid)) and k in ('deleted', 'mismatch')
                                and a['t0'] - EPS <= t and (tick is None or tick > a['seq'])]
                        if trig:
                            t_req = min(t for t, k in trig)
                            need = (h.get('cancellation_backoff') or 0.0)
                            # (finding B also covers a forced removal in the middle of the staged termination: after the DELETED
                            #  event the object's memory is forgotten and nobody drives the remaining stages)
                            gone_at = [t for (t, typ, rv, tick) in evs if typ == 'DELETED' and vers.get(rv) is not None and vers[rv]['writer'] == 'env']
                            orphaned = any(k == 'vanished' for (t, k, who, tick) in triggers4) or \
                                any(t <= t_req + need + h['cancellation_timeout'] + EPS for t in gone_at)
                            paused = any(p0 <= t_req + need + 1.0 and (p1 is None or p1 >= t_req) for (p0, p1) in pauses)
                            if orphaned:
                                res.known.append({'id': FINDING_B, 'msg': f'daemon {hid} of {uid} was asked to stop at {t_req}, then the object vanished without a deletion mark: the staged termination never continued'})
                            elif paused and not rematch_possible(h, evs, vers, t_req) and any(
                                    p0 <= t_req + need + 1.0 and (p1 if p1 is not None else sim.world.now) - max(p0, t_req) > need + h['cancellation_timeout'] + 5.0
                                    and (t_stop is None or t_stop > max(p0, t_req) + need + 5.0) for (p0, p1) in pauses):
                                # the operator paused while the instance was in its stopping stages: no event will come to drive them on
                                # (the streams are closed), the pausing operator itself has to go through them
                                res.fail('C09/D3-never-cancelled-in-pause', f'daemon {hid} of {uid} ignores the stop flag; asked to stop at {t_req} (backoff {need}, '
                                         f'timeout {h["cancellation_timeout"]}), the operator paused {[(p0, p1) for (p0, p1) in pauses]}: it was never cancelled until {sim.world.now}')
                            elif not paused and sim.world.now > t_req + need + h['cancellation_timeout'] + 10.0 and (t_stop is None or t_stop > t_req + need + 1.0):
                                rematched = any(t >= t_req - EPS and typ != 'DELETED' and vers.get(rv) is not None and matches(h, vers[rv]['body'])
                                                and not vers[rv]['body']['metadata'].get('deletionTimestamp')
                                                for (t, typ, rv, tick) in evs if t <= t_req + need + h['cancellation_timeout'] + EPS and t >= t_req)
                                only_mismatch = sorted(trig)[0][1] == 'mismatch'
                                if rematched and only_mismatch:
                                    res.known.append({'id': FINDING_P, 'msg': f'daemon {hid} of {uid} was asked to stop at {t_req} (filters mismatch), the object matched again '
                                                      f'before the backoff ({need}s) was over: the instance keeps running with its stop flag set, is never cancelled and never replaced'})
                                    continue
                                res.fail('C09/D3-never-cancelled', f'daemon {hid} of {uid} ignores the stop flag; asked to stop at {t_req} (backoff {need}, '
                                         f'timeout {h["cancellation_timeout"]}) but it was never cancelled until {sim.world.now}')
                for a in inst:
                    if a.get('behaviour') == 'cancel' and a.get('cancel_seen') is not None:
                        relevant = [t for (t, k, who) in triggers if (who in (None, hid)) and a['t0'] - EPS <= t <= a['cancel_seen'] + EPS and k != 'vanished']
                        if relevant:
                            earliest = min(relevant)
                            need = (h.get('cancellation_backoff') or 0.0)
                            if a['cancel_seen'] + EPS < earliest + need and not any(abs(t - a['cancel_seen']) <= EPS and k == 'exit' for (t, k, w) in triggers):
                                res.fail('C09/D3-cancelled-before-backoff', f'daemon {hid} of {uid} was cancelled at {a["cancel_seen"]}, asked to stop at {earliest}, backoff={need}')
                            if relevant and any(earliest + EPS < t for t in relevant):
                                pass
                        else:
                            res.fail('C09/D3-unexplained-cancel', f'daemon {hid} of {uid} was cancelled at {a["cancel_seen"]} with no stop trigger before; triggers {triggers}')
            else:
                for a, b in zip(inst, inst[1:]):
                    if a['t1'] is None or b['t0'] + EPS < a['t1']:
                        res.fail('C09/D1-two-instances', f'timer {hid} of {uid}: run at {b["t0"]} overlaps the run {a["t0"]}..{a["t1"]}')
                        break
                    if not h.get('idle') and h.get('interval') and a['outcome'] == 'ok' and b['t0'] - a['t1'] < h['interval'] - EPS:
                        # two interleaved timer tasks would tick more often than the interval allows
                        between = [t for (t, k, who) in triggers if a['t0'] - EPS <= t <= b['t0'] + EPS]
                        if not between:
                            res.fail('C09/D1-two-instances', f'timer {hid} of {uid} ran at {a["t0"]} and again at {b["t0"]} (interval {h["interval"]}) with no restart reason in between')
                            break
                for (p0, p1) in pauses:
                    during = [c for c in inst if c['t0'] > p0 + EPS and (p1 is None or c['t0'] < p1 - EPS)]
                    orphan = any(k == 'vanished' and t <= p0 + EPS for (t, k, who) in triggers)
                    if during and not orphan:
                        res.fail('C09/D3-timer-during-pause', f'timer {hid} of {uid} ran at {[c["t0"] for c in during][:4]} while the operator was paused ({p0}..{p1})')
                        break
                # a timer must not tick after the object is gone / marked / mismatching (beyond one in-flight run)
                for (t, k, who) in triggers:
                    if who not in (None, hid) or k in ('pause',):
                        continue
                    later = [c for c in inst if c['t0'] > t + EPS]
                    if k == 'exit' and later and any(kk == 'vanished' and tt <= t for (tt, kk, ww) in triggers):
                        res.known.append({'id': FINDING_B, 'msg': f'timer {hid} of {uid} (orphaned by a forced deletion) still ran at {later[0]["t0"]} after the operator was asked to stop at {t}'})
                    elif k == 'exit' and later:
                        res.fail('C09/D3-timer-after-exit', f'timer {hid} of {uid} ran at {later[0]["t0"]} after the operator was asked to stop at {t}')
                    if k in ('deleted', 'vanished') and later:
                        msg = f'timer {hid} of {uid} kept ticking after the object disappeared/was marked at {t}: runs at {[c["t0"] for c in later][:5]}'
                        if k == 'vanished':
                            res.known.append({'id': FINDING_B, 'msg': msg})
                        else:
                            res.fail('C09/D3-timer-after-deletion', msg)
                        break
            # D2: started when the object appears / starts matching
            if h['kind'] == 'daemon' and h.get('behaviour') in ('obey', 'cancel', 'ignore'):
                first_match = None
                for (t, typ, rv, tick) in evs:
                    v = vers.get(rv)
                    if typ != 'DELETED' and v and not v['body']['metadata'].get('deletionTimestamp') and matches(h, v['body']):
                        first_match = t
                        break
                if first_match is not None and not any(p0 - EPS <= first_match and (p1 is None or first_match < p1) for (p0, p1) in pauses):
                    want = first_match + (h.get('initial_delay') or 0.0)
                    if not inst:
                        gone_early = any(k in ('deleted', 'vanished', 'mismatch', 'exit', 'pause') and t <= want + EPS for (t, k, who) in triggers)
                        if not gone_early and sim.world.now > want + 1.0:
                            res.fail('C09/D2-not-started', f'daemon {hid} never started for {uid} which matched at {first_match}')
                    elif abs(inst[0]['t0'] - want) > EPS and inst[0]['t0'] > want:
                        early_stop = any(t <= inst[0]['t0'] + EPS for (t, k, who) in triggers)
                        if not early_stop:
                            res.fail('C09/D2-started-late', f'daemon {hid} of {uid} started at {inst[0]["t0"]}; the object matched at {first_match}, initial_delay={h.get("initial_delay")}')
        # the stages are not late either: once the object is marked for deletion, a daemon that must be cancelled is gone after its
        # backoff, one that swallows cancellations is abandoned after backoff + timeout - and then the object is let go at once
        # (zero-latency domain; judged when nothing else interferes: no mismatch/disappearance/pause/exit, no synchronous daemons)
        marks = [t for (t, k, who) in triggers if k == 'deleted']
        others = [k for (t, k, who) in triggers if k != 'deleted']
        if marks and not others and not any(h.get('sync') for h in hs.values()):
            t_d = min(marks)
            waits, judged = [], True
            for hid, h in hs.items():
                if h['kind'] != 'daemon':
                    continue
                live_inst = [c for c in calls if c['uid'] == uid and c['hid'] == hid and c['inc'] == inc and c['t0'] <= t_d + EPS and (c['t1'] is None or c['t1'] >= t_d - EPS)]
                if not live_inst:
                    continue
                beh = h.get('behaviour', 'obey')
                if beh == 'cancel' and h.get('cancellation_timeout') is not None:
                    waits.append(h.get('cancellation_backoff') or 0.0)
                elif beh == 'ignore' and h.get('cancellation_timeout') is not None:
                    waits.append((h.get('cancellation_backoff') or 0.0) + h['cancellation_timeout'])
                else:
                    judged = False
            released = [v['t'] for v in vers_by_uid.get(uid, []) if v['writer'] == inc and cl.FINALIZER not in (v['body']['metadata'].get('finalizers') or [])
                        and v['t'] >= t_d - EPS]
            if judged and waits and released and min(released) > t_d + max(waits) + 1e-3:
                res.fail('C09/D3-stage-late', f'{uid}: marked for deletion at t={t_d}; its daemons need {sorted(waits)} s to be cancelled/abandoned (backoff, backoff+timeout), '
                         f'but the object was let go only at t={min(released)} ({min(released) - t_d:.3f}s later)')
            if judged and waits:
                res.label('staged-termination-timed')
        if any(k in ('deleted', 'mismatch') for (_, k, _) in triggers) and len([t for (t, k, _) in triggers]) >= 2:
            nontrivial = True
    # D6: other objects' raw-event handlers are not delayed while something is stopping (zero-latency domain)
    for c in sim.trace:
        if c.get('k') == 'call' and c['kind'] == 'event' and c['inc'] == inc and c.get('rv') is not None:
            evs = delivered.get(c['uid'], [])
            cands = [t for (t, typ, rv, tick) in evs if rv == int(c['rv']) and typ == c.get('type') and tick < c['seq']]
            t_d = cands[-1] if cands else None     # (a re-listing delivers the same version again)
            if t_d is not None and c['t0'] > t_d + 5.0 + EPS:
                res.fail('C09/D6-events-stalled', f'on.event for {c["name"]} rv={c["rv"]} ran at {c["t0"]}, delivered at {t_d}')
                break
    if any(h.get('sync') for h in hs.values()):
        res.label('sync-daemon')
        if any(c.get('sync') and c.get('flag_seen') is not None for c in calls):
            res.label('sync-daemon-stopped')
    if forced:
        res.label('forced-deletion')
        nontrivial = True
    if pauses:
        res.label('pause')
    if t_stop is not None:
        res.label('operator-exit')
    res.nontrivial = nontrivial


def run_shard(ctx):
    n = ctx['examples'] or BUDGET[ctx['tier']]
    return explore(scenarios(), run_case, seed=ctx['seed'], max_examples=n, tier=ctx['tier'], known_ids=ctx['known_ids'])
