"""C19 — Watch coverage and continuity under reconnects, 410s, pauses and cluster changes."""
import gc

from hypothesis import strategies as st

from kopfsim import vclock
from kopfsim.cluster import Fault, ResDef, NAMESPACES, CRDS
from kopfsim.sim import KEX, CPEER, Sim
from kopfsim.world import Livelock
from runner.pbt import CaseResult, explore

ID = 'C19'
LEVEL = 'exploration'
RULE = ('closed-loop histories of one operator (cluster-wide, or serving the namespace patterns default + ns-*; optionally with peering) and an '
        'environment that changes objects of a namespaced and of a cluster-scoped kind in up to 4 namespaces, adds/removes namespaces and the '
        'CRD of the cluster-scoped kind, breaks streams (EOF, connection/payload errors, timeouts) between and at generated positions relative '
        'to the changes, sends BOOKMARKs, expires the history (410 in the stream), answers 429 to lists/watches, ends streams by server, '
        'client and inactivity timeouts, sends an unknown event type or an unknown ERROR, and makes a higher-priority peer appear/vanish. '
        'Oracles on the API model\'s request/stream log and on.event invocations: (protocol) every watch request resumes exactly from the '
        'version of the last event/bookmark that stream consumed, or from the preceding list\'s version; a 410 is followed by a list; '
        '(delivery) every listed object and every event delivered on a stream the client consumed is processed; the final version of every '
        'live served object was processed; an unknown ERROR stops the operator with a failure instead of business as usual; (pause) no '
        'list/watch of served resources and no open stream while a higher-priority peer is known, a list comes first after it; (coverage) at '
        'every checkpoint the open streams are exactly one per served (resource, namespace) pair and never two for the same pair. '
        'Non-trivial: a stream fault between two changes of one object, a namespace/CRD removed and re-added, or changes made during a pause')
ASSUMPTIONS = [
    'the API model replays every change after the requested version unless the history was compacted (then 410 in the stream), as the Kubernetes watch cache does',
    'a change made while no stream is open and later covered only by a re-list is seen as the latest state only (deletions in such a gap are not conveyed by Kubernetes at all)',
    'reaction times: a pause must close the streams within 0.5 s of the peer record\'s delivery; checkpoints are taken after 3 quiet seconds',
    'peering is exercised only in cluster-wide mode here (C13 covers peering as such)',
    'a list/watch request begun before a pause may still be retried by the API client during the pause (its backoff sleeps are not interruptible); only new requests count',
]
BUDGET = {'quick': 60, 'thorough': 1500}
TOL = 1e-6

KCT = ('kopf.dev', 'v1', 'kopfclusterthings')
NS_ALL = ['default', 'ns-a', 'ns-b', 'other']
K3 = ('third.dev', 'v1', 'kopfthirds')       # served through its short name only, which its CRD may lose and regain
K3B = ('third.dev', 'v2', 'kopfthirds')      # ... and a second version of it that is rolled out (preferred) and rolled back at run time
BUSINESS = {KEX: 'kopfexamples', KCT: 'kopfclusterthings', K3: 'kopfthirds', K3B: 'kopfthirds'}


def served_ns(mode, ns):
    return mode == 'clusterwide' or ns == 'default' or ns.startswith('ns-')


# ------------------------------------------------------------------------------------------ generator
@st.composite
def scenarios(draw):
    mode = draw(st.sampled_from(['clusterwide', 'namespaced']))
    peering = mode == 'clusterwide' and draw(st.booleans())
    settings = {'watching.reconnect_backoff': draw(st.sampled_from([0.1, 0.1, 1.0])),
                'watching.server_timeout': draw(st.sampled_from([None, None, 4.0])),
                'watching.client_timeout': draw(st.sampled_from([None, None, 6.0])),
                'watching.inactivity_timeout': draw(st.sampled_from([70.0, 70.0, 2.5])),
                'networking.error_backoffs': draw(st.sampled_from([[0.1, 0.2], [], [0.5]])),
                'queueing.idle_timeout': draw(st.sampled_from([5.0, 0.5, 1.0]))}
    spec = {'handlers': [{'kind': 'event', 'id': 'ev', 'resource': 'kopfexamples'},
                         {'kind': 'event', 'id': 'evc', 'resource': 'kopfclusterthings'}], 'settings': settings}
    third = draw(st.booleans())
    if third:
        spec['handlers'].append({'kind': 'event', 'id': 'ev3', 'resource': 'kth'})
    dts = st.sampled_from([0.0, 0.0, 0.05, 0.2, 0.5, 1.0, 3.0])
    ns = st.sampled_from(NS_ALL)
    obj = st.integers(0, 2)
    val = st.integers(0, 99)
    a_obj = st.one_of(
        st.builds(lambda n, o, v, dt: {'a': 'create', 'ns': n, 'obj': o, 'v': v, 'dt': dt}, ns, obj, val, dts),
        st.builds(lambda n, o, v, dt: {'a': 'edit', 'ns': n, 'obj': o, 'v': v, 'dt': dt}, ns, obj, val, dts),
        st.builds(lambda n, o, v, dt: {'a': 'edit', 'ns': n, 'obj': o, 'v': v, 'dt': dt}, ns, obj, val, dts),
        st.builds(lambda n, o, dt: {'a': 'delete', 'ns': n, 'obj': o, 'dt': dt}, ns, obj, dts),
        st.builds(lambda o, v, dt: {'a': 'ccreate', 'obj': o, 'v': v, 'dt': dt}, st.integers(0, 1), val, dts),
        st.builds(lambda o, v, dt: {'a': 'cedit', 'obj': o, 'v': v, 'dt': dt}, st.integers(0, 1), val, dts),
        st.builds(lambda o, dt: {'a': 'cdelete', 'obj': o, 'dt': dt}, st.integers(0, 1), dts),
    )
    # two changes of one object whose distance is the worker's idle timeout (+/- an instant): the second arrives as the worker retires
    idle = settings['queueing.idle_timeout']
    a_pair = st.builds(lambda n, o, v, g, dt: {'a': 'edit_pair', 'ns': n, 'obj': o, 'v': v, 'gap': g, 'dt': dt}, st.sampled_from(['default', 'default', 'ns-a']), obj, val,
                       st.sampled_from([idle, idle - 1e-10, idle + 1e-10, idle - 1e-6, idle / 2]), dts)
    res = st.sampled_from(['kopfexamples', 'kopfexamples', 'kopfclusterthings'])
    a_stream = st.one_of(
        st.builds(lambda r, k, dt: {'a': 'break', 'plural': r, 'kind': k, 'dt': dt}, res, st.sampled_from(['eof', 'conn', 'payload', 'timeout', 'disconnected']), dts),
        st.builds(lambda r, dt: {'a': 'compact', 'plural': r, 'dt': dt}, res, dts),
        st.builds(lambda r, dt: {'a': 'bookmark', 'plural': r, 'dt': dt}, res, dts),
        st.builds(lambda r, k, at, dt: {'a': 'fault', 'spec': {'on': 'watch', 'plural': r, 'do': 'stream', 'kind': k, 'at': at, 'nth': 0, 'count': 1}, 'dt': dt},
                  res, st.sampled_from(['eof', 'conn', 'gone', 'bookmark', 'unknown-type', 'timeout']), st.integers(0, 3), dts),
        st.builds(lambda r, c, n, dt: {'a': 'fault', 'spec': {'on': c, 'plural': r, 'do': 'status', 'code': 429, 'retry_after_header': 1, 'nth': 0, 'count': n}, 'dt': dt},
                  res, st.sampled_from(['list', 'watch']), st.integers(1, 4), dts),
        st.builds(lambda r, c, dt: {'a': 'fault', 'spec': {'on': c, 'plural': r, 'do': 'exc', 'exc': 'conn', 'nth': 0, 'count': 1}, 'dt': dt},
                  res, st.sampled_from(['list', 'watch']), dts),
    )
    a_cluster = st.one_of(
        st.builds(lambda n, dt: {'a': 'ns_add', 'ns': n, 'dt': dt}, st.sampled_from(NS_ALL[1:]), dts),
        st.builds(lambda n, dt: {'a': 'ns_remove', 'ns': n, 'dt': dt}, st.sampled_from(NS_ALL[1:]), dts),
        st.builds(lambda dt: {'a': 'crd_remove', 'dt': dt}, dts),
        st.builds(lambda dt: {'a': 'crd_add', 'dt': dt}, dts),
    )
    if third:
        # the CRD of the third kind is modified: it loses / regains the short name by which the handler names it (the resource
        # goes on existing, but is no longer / is again what the handler's selector means)
        a_cluster = st.one_of(a_cluster, st.builds(lambda on, dt: {'a': 'shortname', 'on': on, 'dt': dt}, st.booleans(), dts),
                              st.builds(lambda on, dt: {'a': 'shortname', 'on': on, 'dt': dt}, st.booleans(), dts),
                              # a version roll-out: v2 is added to the CRD and becomes the preferred one while v1 goes on being served
                              # (the handler names no version: it means the preferred one) - and the roll-back
                              st.builds(lambda on, dt: {'a': 'version_roll', 'on': on, 'dt': dt}, st.booleans(), dts))
    a_misc = st.one_of(st.builds(lambda dt: {'a': 'advance', 'dt': dt}, st.sampled_from([1.0, 3.0, 8.0])), st.just({'a': 'checkpoint'}))
    choices = [a_obj, a_obj, a_obj, a_pair, a_stream, a_stream, a_cluster, a_misc]
    if peering:
        choices.append(st.one_of(st.builds(lambda dt: {'a': 'peer_appear', 'dt': dt}, dts), st.builds(lambda dt: {'a': 'peer_vanish', 'dt': dt}, dts)))
    pre_ns = draw(st.lists(st.sampled_from(NS_ALL[1:]), max_size=3, unique=True))
    pre = [{'a': 'ns_add', 'ns': n, 'dt': 0.0} for n in pre_ns]
    pre += draw(st.lists(st.builds(lambda n, o, v: {'a': 'create', 'ns': n, 'obj': o, 'v': v, 'dt': 0.0}, ns, obj, val), max_size=3))
    actions = draw(st.lists(st.one_of(*choices), min_size=4, max_size=22))
    if mode == 'namespaced' and draw(st.integers(0, 5)) == 0:
        # a namespace that goes and comes back (twice) faster than the watchers of its previous life can be terminated: a slow
        # raw-event handler keeps the terminating watcher (and with it the orchestrator) busy for up to exit_timeout
        spec['handlers'][0]['duration'] = draw(st.sampled_from([1.0, 1.5, 1.9]))
        n = draw(st.sampled_from(NS_ALL[1:]))
        gaps = st.sampled_from([0.0, 0.1, 0.4])
        actions = [{'a': 'ns_add', 'ns': n, 'dt': 0.5}, {'a': 'create', 'ns': n, 'obj': 0, 'v': 1, 'dt': 3.0}, {'a': 'edit', 'ns': n, 'obj': 0, 'v': 2, 'dt': draw(gaps)},
                   {'a': 'ns_remove', 'ns': n, 'dt': draw(gaps)}, {'a': 'ns_add', 'ns': n, 'dt': draw(gaps)},
                   {'a': 'ns_remove', 'ns': n, 'dt': draw(gaps)}, {'a': 'ns_add', 'ns': n, 'dt': draw(st.sampled_from([0.5, 3.0]))},
                   {'a': 'create', 'ns': n, 'obj': 1, 'v': 5, 'dt': 1.0}, {'a': 'checkpoint'}] + actions[:6]
    if draw(st.integers(0, 11)) == 0:
        r = draw(res)
        actions.append({'a': 'fault', 'spec': {'on': 'watch', 'plural': r, 'do': 'stream', 'kind': 'error', 'code': draw(st.sampled_from([500, 403])), 'at': draw(st.integers(0, 1)),
                                               'nth': 0, 'count': 1}, 'dt': 0.0})
        actions.append({'a': 'break', 'plural': r, 'kind': 'eof', 'dt': 0.5})
        if r == 'kopfexamples':
            actions += [{'a': 'create', 'ns': 'default', 'obj': 0, 'v': 1, 'dt': 0.2}, {'a': 'edit', 'ns': 'default', 'obj': 0, 'v': 2, 'dt': 0.2}, {'a': 'edit', 'ns': 'default', 'obj': 0, 'v': 3, 'dt': 1.0}]
        else:
            actions += [{'a': 'ccreate', 'obj': 0, 'v': 1, 'dt': 0.2}, {'a': 'cedit', 'obj': 0, 'v': 2, 'dt': 0.2}, {'a': 'cedit', 'obj': 0, 'v': 3, 'dt': 1.0}]
        actions += draw(st.lists(a_obj, min_size=0, max_size=3))
    return {'seed': draw(st.integers(0, 9999)), 'mode': mode, 'peering': peering, 'spec': spec, 'crd_present': draw(st.booleans()) or True, 'third': third,
            'pre': pre, 'actions': actions, 'warmup': draw(st.sampled_from([0.0, 0.5, 2.0])), 'gc': draw(st.sampled_from(['never', 'never', 'per-action'])),
            # where the cluster's resource versions start: the history may cross a power of ten (versions are opaque strings; '1000' < '999' as strings)
            'rv0': draw(st.sampled_from([100, 100, 985, 9990, 7])),
            # how the bytes of the watch streams are cut into network reads
            'chunking': draw(st.sampled_from([None, None, 'newline-apart', 'halves', 'thirds']))}


# ------------------------------------------------------------------------------------------ interpreter
class Run:
    def __init__(self, sc):
        self.sc = sc
        self.sim = Sim(resources=[ResDef('kopf.dev', 'v1', 'kopfexamples', 'KopfExample'),
                                  ResDef('kopf.dev', 'v1', 'kopfclusterthings', 'KopfClusterThing', namespaced=False),
                                  ResDef('kopf.dev', 'v1', 'clusterkopfpeerings', 'ClusterKopfPeering', namespaced=False)],
                       seed=sc.get('seed', 0), rv=sc.get('rv0', 100))
        self.c = self.sim.cluster
        self.c.chunking = sc.get('chunking')
        if sc.get('third'):
            self.c.add_resource(ResDef(*K3, 'KopfThird', namespaced=False, shortnames=('kth',)))
            self.c.create(K3, None, 't0', {'spec': {'f': 0}})
        self.checkpoints = []      # dict(t, open=[(rkey, ns)], paused, namespaces, crd)
        self.performed = []
        self.peer_windows = []     # [t_appear, t_vanish|None]
        self.livelock = None
        if sc['peering']:
            self.c.create(CPEER, None, 'default', {})

    def start(self):
        kw = {}
        if self.sc['mode'] == 'namespaced':
            kw.update(clusterwide=False, namespaces=['default', 'ns-*'])
        if self.sc['peering']:
            kw.update(standalone=False, peering_name='default', priority=0)
        self.sim.start('A1', self.sc['spec'], **kw)

    def advance(self, dt):
        self.sim.run_for(dt)

    def ns_exists(self, ns):
        return (NAMESPACES, None, ns) in self.c.objects

    def do(self, act):
        a, c = act['a'], self.c
        t = self.sim.world.now
        eff = True
        if a in ('create', 'edit', 'delete'):
            name = f'o{act["obj"]}'
            if not self.ns_exists(act['ns']):
                eff = False
            elif a == 'create':
                eff = c.create(KEX, act['ns'], name, {'spec': {'f': act['v']}}) is not None
            elif a == 'edit':
                eff = c.edit(KEX, act['ns'], name, lambda b: b.setdefault('spec', {}).update(f=act['v'], n=len(self.performed))) is not None
            else:
                eff = c.delete(KEX, act['ns'], name) is not None
        elif a == 'edit_pair':
            name = f'o{act["obj"]}'
            if not self.ns_exists(act['ns']):
                eff = False
            else:
                if (KEX, act['ns'], name) not in c.objects:
                    c.create(KEX, act['ns'], name, {'spec': {'f': act['v']}})
                    self.advance(0.3)
                c.edit(KEX, act['ns'], name, lambda b: b.setdefault('spec', {}).update(f=act['v'], n=len(self.performed), half=1))
                self.advance(act['gap'])
                c.edit(KEX, act['ns'], name, lambda b: b.setdefault('spec', {}).update(f=act['v'], n=len(self.performed), half=2))
        elif a in ('ccreate', 'cedit', 'cdelete'):
            name = f'c{act["obj"]}'
            if KCT not in c.resdefs:
                eff = False
            elif a == 'ccreate':
                eff = c.create(KCT, None, name, {'spec': {'f': act['v']}}) is not None
            elif a == 'cedit':
                eff = c.edit(KCT, None, name, lambda b: b.setdefault('spec', {}).update(f=act['v'], n=len(self.performed))) is not None
            else:
                eff = c.delete(KCT, None, name) is not None
        elif a == 'break':
            rkey = ('kopf.dev', 'v1', act['plural'])
            c.break_watches(rkey=rkey, kind=act['kind'])
        elif a == 'compact':
            rkey = ('kopf.dev', 'v1', act['plural'])
            if rkey in c.resdefs:
                c.rv += 1
                c.compact(rkey)
                c.break_watches(rkey=rkey)
        elif a == 'bookmark':
            c.rv += 1          # (the cluster moved on elsewhere: the bookmark carries a version no object of this kind has)
            c.bookmark(rkey=('kopf.dev', 'v1', act['plural']))
        elif a == 'fault':
            c.faults.append(Fault(act['spec']))
        elif a == 'ns_add':
            eff = not self.ns_exists(act['ns'])
            c.add_namespace(act['ns'])
        elif a == 'ns_remove':
            eff = self.ns_exists(act['ns'])
            c.remove_namespace(act['ns'])
        elif a == 'crd_remove':
            eff = KCT in c.resdefs
            c.remove_resource(KCT)
        elif a == 'shortname':
            rd = c.resdefs[K3]
            eff = bool(rd.shortnames) != act['on']
            if eff:
                rd.shortnames = ('kth',) if act['on'] else ()
                if K3B in c.resdefs:
                    c.resdefs[K3B].shortnames = rd.shortnames
                c.edit(CRDS, None, 'kopfthirds.third.dev', lambda b: b['spec']['names'].update(shortNames=list(rd.shortnames)))
        elif a == 'version_roll':
            eff = (K3B in c.resdefs) != act['on']
            if eff:
                rd = c.resdefs[K3]
                if act['on']:
                    c.add_resource(ResDef(*K3B, 'KopfThird', namespaced=False, shortnames=rd.shortnames), announce=False)
                    c.preferred['third.dev'] = 'v2'
                    c.create(K3B, None, 't0', {'spec': {'f': 0}})
                else:
                    c.preferred.pop('third.dev', None)
                    for w in list(c.watches):
                        if w.rkey == K3B:
                            w.end()
                    for k in [k for k in c.objects if k[0] == K3B]:
                        del c.objects[k]
                    c.resdefs.pop(K3B, None)
                c.edit(CRDS, None, 'kopfthirds.third.dev', lambda b: b['spec'].update(versions=['v1', 'v2'] if act['on'] else ['v1']))
        elif a == 'crd_add':
            eff = KCT not in c.resdefs
            if eff:
                c.add_resource(ResDef('kopf.dev', 'v1', 'kopfclusterthings', 'KopfClusterThing', namespaced=False))
        elif a == 'peer_appear':
            eff = not (self.peer_windows and self.peer_windows[-1][1] is None)
            if eff:
                c.edit(CPEER, None, 'default', lambda b: b.setdefault('status', {}).update(
                    rival={'priority': 100, 'lifetime': 100000, 'lastseen': vclock.iso(self.sim.world.now)}))
                self.peer_windows.append([t, None])
        elif a == 'peer_vanish':
            eff = bool(self.peer_windows and self.peer_windows[-1][1] is None)
            if eff:
                c.edit(CPEER, None, 'default', lambda b: (b.get('status') or {}).pop('rival', None))
                self.peer_windows[-1][1] = t
        elif a == 'checkpoint':
            self.advance(3.0)
            self.checkpoint()
            self.advance(2.0)
        elif a == 'advance':
            pass
        else:
            raise ValueError(a)
        self.performed.append((t, act, eff))
        if self.sc.get('gc') == 'per-action':
            gc.collect()
        self.advance(act.get('dt') or 0.0)

    def checkpoint(self):
        op = self.sim.ops.get('A1')
        self.checkpoints.append({
            't': self.sim.world.now, 'alive': bool(op and op.alive),
            'open': sorted((w.rkey, w.namespace) for w in self.c.open_watches('A1')),
            'paused': bool(self.peer_windows and self.peer_windows[-1][1] is None),
            'namespaces': sorted(k[2] for k in self.c.objects if k[0] == NAMESPACES),
            'crd': KCT in self.c.resdefs,
            'third': bool(self.sc.get('third')) and bool(self.c.resdefs[K3].shortnames),
            'third_v2': K3B in self.c.resdefs,
            'pending_faults': [f.spec for f in self.c.faults if f.spec.get('do') in ('status', 'exc') and f.fired < f.spec.get('count', 1)],
        })

    def run(self):
        for act in self.sc.get('pre', []):
            self.do(act)
        self.start()
        self.advance(self.sc.get('warmup', 1.0))
        for act in self.sc['actions']:
            self.do(act)
        self.c.faults.clear()
        self.advance(12.0)
        self.checkpoint()
        self.advance(2.0)

    def close(self):
        self.sim.close()


# ------------------------------------------------------------------------------------------ oracle
def check(run, res):
    sc, sim, c = run.sc, run.sim, run.c
    mode = sc['mode']
    op = sim.ops['A1']
    watches = {w.id: w for w in c.all_watches}
    reqs = [r for r in c.requests if r['client'] == 'A1']
    calls = [x for x in sim.trace if x.get('k') == 'call' and x['kind'] == 'event']
    fault_between = readded = paused_changes = False

    # --- an unknown ERROR in a stream: that stream must raise, not go on as if nothing happened
    #     (that the whole operator then stops rather than lingers without this stream is C20's statement, not judged here)
    fatal = {}          # (rkey, ns) -> t of the unknown ERROR
    for w in c.all_watches:
        if w.rkey not in BUSINESS or w.session.client_id != 'A1':
            continue
        errs = [d for d in w.delivered if d[1] == 'ERROR']
        for d, code in zip(errs, w.error_codes):
            if code != 410:
                key = (w.rkey, w.namespace)
                fatal[key] = min(fatal.get(key, d[0]), d[0])
                after = [x for x in w.delivered if x[4] > d[4] and x[1] in ('ADDED', 'MODIFIED', 'DELETED')]
                done = [x for x in after if [y for y in calls if y['uid'] == x[3] and str(y['rv']) == str(x[2]) and y.get('type') == x[1]]]
                later = [r for r in reqs if r['plural'] == BUSINESS[w.rkey] and r['ns'] == w.namespace and r['name'] is None and r['t'] > d[0] + TOL
                         and ({'list', 'watch'} & set(r['classes']))]
                if done or later:
                    res.fail('C19/unknown-error-skipped', f'{BUSINESS[w.rkey]}@{w.namespace}: an unknown ERROR event (code {code}) arrived at t={d[0]}, yet the stream went on as usual: '
                             f'{len(done)} later events of the same connection were processed, {len(later)} further list/watch requests were made')
    t_fatal = min(fatal.values()) if fatal else None
    if fatal:
        res.label('unknown-error-event')
    if not op.alive and not fatal:
        res.fail('C19/operator-stopped', f'the operator stopped without an unknown ERROR event: exit={op.exit}')

    # --- stream threads
    threads = {}
    for r in reqs:
        rkey = (r.get('query') is not None) and next((k for k in BUSINESS if BUSINESS[k] == r['plural']), None)
        if not rkey or r['name'] is not None or not ({'list', 'watch'} & set(r['classes'])):
            continue
        threads.setdefault((rkey, r['ns']), []).append(r)
    for (rkey, ns), rs in threads.items():
        prev = None          # the last successful request of this thread
        gone_pending = False
        for r in rs:
            ok = r['outcome'] == 200
            if 'list' in r['classes']:
                if ok:
                    prev = r
                    gone_pending = False
                continue
            # a watch request
            since = r['query'].get('resourceVersion')
            if gone_pending:
                res.fail('C19/watch-after-410-without-list', f'{BUSINESS[rkey]}@{ns}: after a 410 the next request at t={r["t"]} was a watch (since={since}), not a list')
                gone_pending = False
            if prev is not None:
                if 'list' in prev['classes']:
                    want = {str(prev['list_rv'])}
                    how = f'the list at t={prev["t"]} returned version {prev["list_rv"]}'
                else:
                    pw = watches[prev['watch']]
                    seen = [str(d[2]) for d in pw.delivered if d[2] is not None]
                    if not pw.end_consumed:
                        want = {str(pw.since)} | set(seen)
                        how = f'the previous stream (since {pw.since}) was closed by the client having received versions {seen}'
                    else:
                        want = {seen[-1] if seen else str(pw.since)}
                        how = f'the previous stream (since {pw.since}) delivered versions {seen} before it ended'
                if since is None or str(since) not in want:
                    res.fail('C19/resumed-from-wrong-version', f'{BUSINESS[rkey]}@{ns}: the watch request at t={r["t"]} asks for changes since {since}, but {how}')
            else:
                res.fail('C19/watch-without-list', f'{BUSINESS[rkey]}@{ns}: a watch request at t={r["t"]} with no list before it')
            if ok and r.get('watch') is not None:
                prev = r
                w = watches[r['watch']]
                if 410 in getattr(w, 'error_codes', []):
                    gone_pending = True
    # --- delivery: what a consumed stream delivered, and what a list returned, is processed
    def processed(uid, rv, typ):
        return [x for x in calls if x['uid'] == uid and str(x['rv']) == str(rv) and x.get('type') == typ]
    for (rkey, ns), rs in threads.items():
        succ = [r for r in rs if r['outcome'] == 200]
        for i, r in enumerate(succ):
            nxt = succ[i + 1] if i + 1 < len(succ) else None
            if 'list' in r['classes']:
                if t_fatal is not None and r['t_done'] >= t_fatal - TOL:
                    continue
                for uid, rv in r['listed'] or []:
                    if not processed(uid, rv, None) and not _paused_at(run, r['t_done']):
                        res.fail('C19/listed-object-not-processed', f'{BUSINESS[rkey]}@{ns}: the list at t={r["t_done"]} returned {uid} rv={rv}, which was never processed')
                continue
            w = watches[r['watch']]
            limit = None
            if not w.end_consumed and w.closed_at is not None:
                if nxt is not None and 'watch' in nxt['classes']:
                    limit = int(nxt['query'].get('resourceVersion') or 0)
                else:
                    limit = -1     # superseded by a list (or nothing): nothing can be demanded
            for (t, typ, rv, uid, tick) in w.delivered:
                if typ not in ('ADDED', 'MODIFIED', 'DELETED'):
                    continue
                if limit is not None and int(rv) > limit:
                    continue
                if t_fatal is not None and t >= t_fatal - TOL:
                    continue
                # what was still queued for an object when the watcher of its stream died of an unknown ERROR goes down with it
                # ("while the watch is alive"): an event is demanded only if its object had nothing in flight at that moment
                if (rkey, ns) in fatal and any(x['uid'] == uid and x['t0'] <= fatal[(rkey, ns)] + TOL and (x['t1'] is None or x['t1'] >= t - TOL) for x in calls) \
                        and t >= fatal[(rkey, ns)] - 5.0:
                    continue
                if not processed(uid, rv, typ):
                    res.fail('C19/delivered-event-not-processed', f'{BUSINESS[rkey]}@{ns}: {typ} of {uid} rv={rv} was delivered at t={t} on a stream the client '
                             f'consumed, but was never processed')
    # --- delivery: the final versions
    last = run.checkpoints[-1]
    if last['alive'] and not last['paused']:
        for (rkey, ns, name), body in c.objects.items():
            if rkey in BUSINESS and (ns is None or served_ns(mode, ns)):
                if rkey in (K3, K3B) and not (last.get('third') and rkey == (K3B if last.get('third_v2') else K3)):
                    continue      # that version of the third kind is not what the handler's selector means at the end
                if (rkey, ns if (mode == 'namespaced' and rkey == KEX) else None) in fatal:
                    continue
                rv = body['metadata']['resourceVersion']
                if not [x for x in calls if x['uid'] == body['metadata']['uid'] and str(x['rv']) == str(rv)]:
                    res.fail('C19/final-version-not-processed', f'{BUSINESS[rkey]}/{ns}/{name}: its final version rv={rv} was never processed')
    # --- pause
    for t0, t1 in run.peer_windows:
        hi = t1 if t1 is not None else sim.world.now
        exempt = set()
        for key, rs in threads.items():
            for i, r in enumerate(rs):
                # the API client may still be retrying a request it began before the pause (its backoff sleeps are not interruptible)
                if i > 0 and rs[i - 1]['outcome'] != 200 and (rs[i - 1]['t'] <= t0 + 0.5 or rs[i - 1]['id'] in exempt) \
                        and ({'list', 'watch'} & set(r['classes'])) == ({'list', 'watch'} & set(rs[i - 1]['classes'])):
                    exempt.add(r['id'])
        for r in reqs:
            if r['plural'] in BUSINESS.values() and r['name'] is None and ({'list', 'watch'} & set(r['classes'])) and t0 + 0.5 < r['t'] < hi - TOL and r['id'] not in exempt:
                res.fail('C19/request-while-paused', f'a higher-priority peer is known since t={t0} (till {t1}), yet {sorted(r["classes"])} of {r["plural"]} was requested at t={r["t"]}')
        for w in c.all_watches:
            end = w.closed_at if w.closed_at is not None else sim.world.now
            if w.session.client_id == 'A1' and w.rkey in BUSINESS and w.opened_at <= t0 + 0.5 and end > t0 + 0.5 and hi > t0 + 0.5:
                if t_fatal is None:
                    res.fail('C19/stream-open-while-paused', f'a higher-priority peer is known since t={t0}, yet the stream of {BUSINESS[w.rkey]}@{w.namespace} opened at '
                             f't={w.opened_at} stayed open till {w.closed_at}')
        if t1 is not None and t1 - t0 > 0.5:      # (a pause shorter than the stated reaction time need not have closed anything)
            for key, rs in threads.items():
                after = [r for r in rs if r['t'] >= t1 - TOL]
                if after and 'list' not in after[0]['classes']:
                    res.fail('C19/no-list-after-resume', f'{BUSINESS[key[0]]}@{key[1]}: the first request after the pause ended at t={t1} is a watch at t={after[0]["t"]}, not a list')
        if any(v['rkey'] in BUSINESS and v['writer'] == 'env' and t0 + 0.5 < v['t'] < hi for v in c.history):
            paused_changes = True
    # --- coverage: judged over the 2 s after each checkpoint (a stream being re-established at the very instant is no gap)
    mine_all = [w for w in c.all_watches if w.session.client_id == 'A1']

    def open_within(w, a, b):
        return w.opened_at <= b + TOL and (w.closed_at is None or w.closed_at >= a - TOL)
    for cp in run.checkpoints:
        if not cp['alive'] or (t_fatal is not None and t_fatal <= cp['t'] + 2.0):
            continue
        a, b = cp['t'], cp['t'] + 2.0
        pairs = {}
        for w in mine_all:
            if open_within(w, a, b):
                pairs.setdefault((w.rkey, w.namespace), []).append(w)
        for k, ws in pairs.items():
            for i, w1 in enumerate(ws):
                for w2 in ws[i + 1:]:
                    lo = max(w1.opened_at, w2.opened_at, a)
                    hi = min(w1.closed_at if w1.closed_at is not None else b, w2.closed_at if w2.closed_at is not None else b, b)
                    if hi - lo > 0.5:
                        res.fail('C19/duplicate-streams', f'between t={lo} and t={hi} there are two open streams of {k[0][2]}@{k[1]} (opened at {w1.opened_at} and {w2.opened_at})')
        if cp['pending_faults']:
            continue
        want = set()
        if not cp['paused']:
            if mode == 'clusterwide':
                want.add((KEX, None))
            else:
                want |= {(KEX, n) for n in cp['namespaces'] if served_ns(mode, n)}
            if cp['crd']:
                want.add((KCT, None))
            if cp.get('third'):
                want.add((K3B if cp.get('third_v2') else K3, None))
        got = {k for k in pairs if k[0] in BUSINESS}
        lingering = {k for k in got - want if any(open_within(w, a, a) for w in pairs[k]) and any(open_within(w, b, b) for w in pairs[k])}
        missing = want - got
        if missing or lingering:
            res.fail('C19/coverage', f'within 2 s after t={cp["t"]} ({mode}, namespaces {cp["namespaces"]}, cluster-scoped CRD {"present" if cp["crd"] else "absent"}, '
                     f'{"paused" if cp["paused"] else "active"}): served pairs without any open stream: {sorted(missing, key=str)}; streams of pairs not served: {sorted(lingering, key=str)}')
    # --- classification
    for w in c.all_watches:
        if w.rkey in BUSINESS and w.session.client_id == 'A1' and w.closed_at is not None:
            uids_before = {d[3] for d in w.delivered if d[3]}
            later = {v['uid'] for v in c.history if v['rkey'] == w.rkey and v['t'] >= w.closed_at - TOL and v['writer'] == 'env'}
            if uids_before & later:
                fault_between = True
    removed = {}
    for t, act, eff in run.performed:
        if act['a'] in ('ns_remove', 'crd_remove') and eff:
            removed[act.get('ns', 'crd')] = True
        if act['a'] in ('ns_add', 'crd_add') and eff and removed.get(act.get('ns', 'crd')):
            readded = True
    if fault_between:
        res.label('fault-between-changes-of-one-object')
    if any(act['a'] == 'version_roll' and eff for t, act, eff in run.performed):
        res.label('crd-version-rolled-out-or-back')
    if any(act['a'] == 'shortname' and eff for t, act, eff in run.performed):
        res.label('crd-modified-short-name-lost-or-regained')
    if readded:
        res.label('namespace-or-crd-readded')
    if paused_changes:
        res.label('changes-during-pause')
    res.nontrivial = fault_between or readded or paused_changes


def _paused_at(run, t):
    return any(t0 <= t and (t1 is None or t <= t1 + TOL) for t0, t1 in run.peer_windows)


def run_case(scenario):
    res = CaseResult()
    # The moment at which the cyclic garbage collector runs is a schedule like any other: it is taken away from chance
    # (never within a case, or at every environment action) so that a case is a pure function of its scenario.
    gc.collect()
    gc.disable()
    try:
        return _run_case(scenario, res)
    finally:
        gc.enable()
        gc.collect()


def _run_case(scenario, res):
    run = Run(scenario)
    try:
        try:
            run.run()
        except Livelock as e:
            res.fail('C19/livelock', str(e))
            if not run.checkpoints:
                run.checkpoint()
        check(run, res)
        sim = run.sim
        res.summary = {'requests': [(round(r['t'], 4), r['plural'], r['ns'], sorted(r['classes'] & {'list', 'watch'}), r['query'].get('resourceVersion'), r['outcome'])
                                    for r in sim.cluster.requests if r['plural'] in BUSINESS.values() and r['name'] is None][:60],
                       'checkpoints': [{k: (str(v) if k == 'open' else v) for k, v in cp.items()} for cp in run.checkpoints][-3:],
                       'exit': sim.ops['A1'].exit, 'virtual_time': sim.world.now}
    finally:
        run.close()
    return res


def run_shard(ctx):
    n = ctx['examples'] or BUDGET[ctx['tier']]
    return explore(scenarios(), run_case, seed=ctx['seed'], max_examples=n, tier=ctx['tier'], known_ids=ctx['known_ids'])
